"""hist.py — history-kind support: running command histories through the real
cmd_* functions, comparing every tapped resolver call with the model, and the
direct oracles for C09, C10, C11, C13."""
import json
import os
import re
from collections import Counter

import vetlib
import gen
import oracle as O
import usercmd
from vetlib import coq, parse_sexp

MODEL_IMPORTS = ["Base", "Extracted", "Criteria", "Search", "AuditGraph", "DepGraph", "Resolve", "Show",
                 "Update", "ShowUpdate"]


def mk_mode(x):
    b = lambda v: "true" if v else "false"  # noqa
    return f"(mk_mode {x['search']} {b(x['prune_exemptions'])} {b(x['prune_audits'])} {b(x['prune_imports'])})"


def mode_fn(modes):
    s = "(fun n => "
    for m in modes:
        s += f"if N.eqb n {m['name']}%N then {mk_mode(m)} else "
    s += mk_mode(modes[0]) + ")" if modes else "(mk_mode PreferExemptions false false false))"
    return s


def canon_updates(s):
    e = parse_sexp(s)

    def sec(x):
        ps = []
        for p in x[1:]:
            if len(p) > 2:
                ps.append([p[1]] + sorted(json.dumps(i) for i in p[2:]))
        return sorted(ps)
    out = {}
    for x in e[1:]:
        if x[0] == "imports":
            out["imports"] = [[i[1], sec(i[2]), sec(i[3])] for i in x[1:]]
        else:
            out[x[0]] = sec(x)
    return out


def tap_expr(t):
    mi = t["model_input"]
    if t["kind"] == "resolve":
        return f"sreport (resolve {coq(mi['graph'])} {coq(mi['store'])})"
    return (f"(supdates (get_store_updates {coq(mi['graph'])} {coq(mi['store'])} {mode_fn(t['modes'])}) ++ "
            f"sstore_ok {coq(mi['graph'])} {coq(mi['store'])})%string")


def tap_agrees(t, m):
    if m.startswith("MODEL-ERROR"):
        return False, "model evaluation failed: " + m[:200]
    if t["obs"].startswith("PANIC"):
        return False, "implementation panicked: " + t["obs"][:200]
    if "(fuel)" in m:
        return False, "model ran out of fuel"
    if "(store_bad)" in m:
        return False, "a store the implementation loaded does not satisfy the model's store_ok precondition"
    if t["kind"] == "resolve":
        a, b = O.Report(t["obs"]), O.Report(m)
        pa = (a.kind, sorted(a.failures().items()), a.reqs, a.success_lists())
        pb = (b.kind, sorted(b.failures().items()), b.reqs, b.success_lists())
        return (pa == pb), "verdict differs"
    return (canon_updates(t["obs"]) == canon_updates(m)), "store updates differ"


# ---------------------------------------------------------------- semantic helpers on serde_json dumps
def aslist(v):
    if v is None:
        return []
    if isinstance(v, str):
        return [v]
    return list(v)


def jclosure(audits_json, names):
    table = audits_json.get("criteria", {}) or {}
    seen = set()
    work = list(names)
    while work:
        x = work.pop()
        if x in seen:
            continue
        seen.add(x)
        if x == "safe-to-deploy":
            work.append("safe-to-run")
        for y in aslist((table.get(x) or {}).get("implies")):
            work.append(y)
    return frozenset(seen)


def exemptions_sem(snap):
    out = []
    for pkg, l in (snap["config"].get("exemptions") or {}).items():
        for e in l:
            out.append((pkg, e["version"], jclosure(snap["audits"], aslist(e.get("criteria"))),
                        e.get("suggest", True), e.get("notes")))
    return out


def jkey(x):
    return json.dumps(x, sort_keys=True)


def local_audits(snap):
    return Counter((pkg, jkey(a)) for pkg, l in (snap["audits"].get("audits") or {}).items() for a in l)


def other_local(snap):
    a, c = snap["audits"], snap["config"]
    return jkey({"criteria": a.get("criteria"), "wildcard": a.get("wildcard-audits"), "trusted": a.get("trusted"),
                 "policy": c.get("policy"), "imports": c.get("imports"), "default": c.get("default-criteria")})


def interned_pkg_stores(store_json):
    """{name: [imported(list per import), local, wild_imported, wild_local, trusted, publishers, unpublished, exemptions]}"""
    return {p["_pair"][0]: O.args(p["_pair"][1]) for p in O.args(store_json)[1]}


def akey(a):
    k, ka, crit, importable, fresh = O.audit_fields(a)
    return (k, tuple(tuple(x) if isinstance(x, list) else x for x in ka), tuple(crit))


def wkey(w):
    user, start, end, crit, fresh = O.args(w)
    return (user, O.num(start), O.num(end), tuple(crit))


def pkey(p):
    ver, user, when, fresh = O.args(p)
    return (ver, user, O.num(when))


def ukey(u):
    ver, as_, fresh, still = O.args(u)
    return (ver, as_)


def lock_entries(store_json):
    out = set()
    for name, ps in interned_pkg_stores(store_json).items():
        for i, l in enumerate(ps[0]):
            out |= {("audit", i, name) + akey(a) for a in l}
        for i, l in enumerate(ps[2]):
            out |= {("wildcard", i, name) + wkey(w) for w in l}
        out |= {("publisher", name) + pkey(p) for p in ps[5]}
        out |= {("unpublished", name) + ukey(u) for u in ps[6]}
    return out


STORE_WRITERS = ("check", "prune", "regenerate", "certify", "add-exemption", "fmt", "import", "trust",
                 "record-violation", "init", "renew")


def cmd_class(args):
    if args[0] == "check":
        return "check-locked" if "--locked" in args else "check"
    if args[0] == "regenerate":
        return "regenerate-" + args[1]
    return args[0]


class Step:
    def __init__(self, k, case, o):
        self.k = k
        self.s = o["steps"][k]
        self.args = self.s["args"]
        self.cls = cmd_class(self.args)
        self.outcome = self.s["outcome"]
        self.pre = o["initial_post"] if k == 0 else o["steps"][k - 1]["post"]
        self.post = self.s["post"]
        self.pre_store = o["post_stores"][k]
        self.post_store = o["post_stores"][k + 1]
        self.taps = [t for t in o["taps"] if t["step"] == k]
        self.probe_taps = {j: [t for t in o["taps"] if t["step"] == 1000 + 10 * k + j] for j in range(4)}
        self.tables = o.get("tables") or {}
        self.strict = bool(case.get("strict"))      # a history no known finding lists: nothing is classified as known
        self.remote = (case.get("steps") or [{}] * (k + 1))[k].get("remote") if k < len(case.get("steps") or []) else None

    def concl(self, which):
        p = self.s.get(which)
        return p.get("conclusion") if p else None


def oracle_c09(step):
    out = []
    if step.cls == "check":
        if step.outcome == "ok":
            pl = step.s.get("post_locked") or {}
            if pl.get("outcome") != "ok":
                out.append({"what": f"after a successful unlocked `cargo vet`, `cargo vet --locked` on the files it wrote gives {pl.get('outcome')!r}"})
            if step.s["locked_load"] != "ok":
                out.append({"what": f"the files written by a successful unlocked `cargo vet` are refused by a locked load: {step.s['locked_load']}"})
        elif any(step.s["changed"]):
            out.append({"what": f"a failing `cargo vet` ({step.outcome[:40]}) changed store files {step.s['changed']}"})
    return out


def oracle_c10(step):
    out = []
    if step.outcome != "ok":
        return out
    post = step.concl("post_check")
    if post is None:
        return out
    if step.cls in ("regenerate-exemptions", "init"):
        if post == "fail (vetting)":
            out.append({"what": f"`{' '.join(step.args)}` left a store that fails vetting for missing audits"})
        return out
    if step.concl("pre_check") != "success":
        return out
    if step.cls in ("check", "prune", "regenerate-imports", "fmt"):
        if post != "success":
            out.append({"what": f"`{' '.join(step.args)}` on a passing store left a store whose verdict is {post!r}"})
        elif step.cls in ("prune", "regenerate-imports"):
            # the files as WRITTEN must pass on their own (what `prune_preserves` / `regenerate_imports_preserves` state): an
            # unlocked re-check fetches again whatever the command dropped, a `--locked` one cannot
            locked = step.concl("post_locked")
            if locked is not None and locked != "success":
                out.append({"what": f"`{' '.join(step.args)}` on a passing store wrote files with which `cargo vet --locked` gives {locked!r} "
                                    f"(a record the certifying chains need was dropped)"})
    elif step.cls in ("certify", "add-exemption", "trust", "import"):
        if post == "fail (vetting)":
            out.append({"what": f"the clean-up after `{' '.join(step.args[:3])}` broke a passing store (verdict {post!r})"})
    return out


def oracle_c12(step):
    """after a successful `cargo vet prune` (exemption pruning on) an exemption, and each criterion it lists, remains only
    if some in-graph version of that crate needs a criterion it provides and cannot be certified for it from audits and
    grants alone — judged on the files prune wrote, with an independent reachability over the records"""
    out = []
    if step.cls != "prune" or step.outcome != "ok" or "--no-exemptions" in step.args:
        return out
    if step.concl("pre_check") != "success" or not step.post_store or not step.taps:
        return out          # (a crate that fails to vet keeps its exemptions as written)
    try:
        store = step.post_store["store"]
        graph = step.taps[-1]["model_input"]["graph"]
        table = O.table_of(store)
        nodes, _ = O.graph_nodes(graph)
        R, _ = O.requirements(table, graph)
    except Exception:
        return out
    if not R:
        return out
    no_exemption = lambda e: bool(e[4].get("exemption") or e[4].get("unpublished"))  # noqa
    for name in sorted({nd["name"] for nd in nodes if nd["third"]}):
        ps = O.pkg_store(store, name)
        exempt = ps[7]
        if not exempt:
            continue
        edges = O.edges_of(table, ps)
        needy = set()          # criteria some in-graph version of this crate needs and cannot get from audits and grants
        for i, nd in enumerate(nodes):
            if nd["third"] and nd["name"] == name:
                for r in R[i]:
                    if not O.certified(edges, r, nd["version"], avoid=no_exemption):
                        needy.add(r)
        for x in exempt:
            xver, crit, _sug = O.args(x)
            for c in crit:
                if not (O.closure(table, c) & needy):
                    out.append({"what": f"after `prune` crate #{name} keeps an exemption (version rank {xver}) listing criterion #{c}, "
                                        f"which no in-graph version of the crate needs beyond what audits and grants certify (needed: {sorted(needy)})"})
                    return out
    return out


def covered(e, olds):
    pkg, ver, clo, sug, notes = e
    return any(o[0] == pkg and o[1] == ver and clo <= o[2] and sug == o[3] and notes == o[4] for o in olds)


def oracle_c17(step):
    """`certify` WITHOUT --criteria (the user presses ENTER at the prompt, so what is recorded is what cargo-vet pre-selected):
    every pre-selected criterion is one for which the delta connects an audited version to a needed one — <from> (if any) is
    certified for it by the records of the store the command found (exemptions included: the weakest reading), and some version
    of the crate in the graph is required to meet it and is <to> or reachable from <to> for it.  Judged on the interned store
    before the command with an independent reachability over the records."""
    out = []
    if step.cls != "certify" or step.outcome != "ok" or "--criteria" in step.args or not step.pre_store or not step.post_store:
        return out
    pos = []
    for a in step.args[2:]:
        if a.startswith("--"):
            break
        pos.append(a)
    tb = step.tables
    names, vers = tb.get("names") or [], tb.get("versions") or []
    taps = [t for t in step.taps if t["kind"] == "resolve"]
    if not pos or len(pos) > 2 or step.args[1] not in names or any(v not in vers for v in pos) or not taps:
        return out
    ni = names.index(step.args[1])
    to = vers.index(pos[-1])
    frm = vers.index(pos[0]) if len(pos) == 2 else None
    try:
        store = step.pre_store["store"]
        table = O.table_of(store)
        graph = taps[0]["model_input"]["graph"]
        nodes, _ = O.graph_nodes(graph)
        R, _ = O.requirements(table, graph)
        ps = O.pkg_store(store, ni)
        edges = O.edges_of(table, ps)
        pre = Counter(akey(a) for a in ps[1])
        post = Counter(akey(a) for a in O.pkg_store(step.post_store["store"], ni)[1])
    except Exception:
        return out
    crit = tb.get("criteria") or []
    for (_k, _ka, cl) in (post - pre).elements():
        for c in cl:
            cn = crit[c] if c < len(crit) else f"#{c}"
            if frm is not None and not O.certified(edges, c, frm):
                out.append({"what": f"`certify {step.args[1]} {' '.join(pos)}` pre-selected {cn}, but {pos[0]} is not certified for it by any chain of "
                                    "records: the delta does not connect an audited version"})
                continue
            needed = [nd["version"] for i, nd in enumerate(nodes) if nd["third"] and nd["name"] == ni and R and c in R[i]]
            if not any(v == to or v in O.reachable(edges, c, to, lambda e: False) for v in needed):
                out.append({"what": f"`certify {step.args[1]} {' '.join(pos)}` pre-selected {cn}, which no version of the crate in the graph reachable "
                                    f"from {pos[-1]} is required to meet"})
    return out


def oracle_c05(step):
    """`certify`: every audit of the crate that is NEW in audits.toml denotes what was asked for — the requested span with
    the requested criteria (meaning, not spelling) — or the requested span folded with a removed adjacent prior audit that
    was itself recorded for exactly those criteria.  A record for X never comes to count for something X does not imply."""
    out = []
    if step.cls != "certify" or step.outcome != "ok" or step.pre is None or step.post is None or len(step.args) < 3:
        return out
    pkg = step.args[1]
    pos = []
    for a in step.args[2:]:
        if a.startswith("--"):
            break
        pos.append(a)
    if not pos or len(pos) > 2:
        return out
    to = pos[-1]
    frm = pos[0] if len(pos) == 2 else None
    asked = [step.args[i + 1] for i, a in enumerate(step.args[:-1]) if a == "--criteria"]
    if not asked:
        return out
    tbl = step.post["audits"]
    req = jclosure(tbl, asked)

    def span(e):
        if e.get("violation") is not None:
            return None
        if e.get("delta") is not None:
            a, _, b = str(e["delta"]).partition(" -> ")
            return (a.strip(), b.strip()) if b else (None, a.strip())
        return (None, e.get("version"))
    P = [a for a in (step.pre["audits"].get("audits") or {}).get(pkg, [])]
    Q = [a for a in (step.post["audits"].get("audits") or {}).get(pkg, [])]
    pc, qc = Counter(jkey(a) for a in P), Counter(jkey(a) for a in Q)
    new = [json.loads(t) for t in (qc - pc).elements()]
    gone = [json.loads(t) for t in (pc - qc).elements()]
    for e in new:
        sp = span(e)
        if sp is None:
            continue
        got = jclosure(tbl, aslist(e.get("criteria")))
        if got != req:
            out.append({"what": f"`certify {pkg}` for {sorted(asked)} wrote an audit {sp} whose criteria mean {sorted(got)}, not {sorted(req)}"})
            continue
        if sp == (frm, to):
            continue
        folded = [g for g in P if span(g) == (sp[0], frm) and sp[1] == to]
        if not folded:
            out.append({"what": f"`certify {pkg} {' '.join(pos)}` wrote an audit for the span {sp}, which is neither the span asked for nor "
                                "that span folded with an adjacent prior audit"})
        elif not any(jclosure(tbl, aslist(g.get("criteria"))) == req for g in folded):
            g = folded[0]
            out.append({"what": f"`certify {pkg} {' '.join(pos)}` for {sorted(asked)} folded the prior audit {span(g)}, recorded for "
                                f"{sorted(jclosure(tbl, aslist(g.get('criteria'))))}, into one audit {sp} for {sorted(req)}: a record now counts "
                                "for criteria it does not imply"})
    return out


def oracle_c11(step):
    out = []
    if step.outcome != "ok" or step.pre is None or step.post is None:
        return out
    cls = step.cls
    cmd = " ".join(step.args[:3])
    pre, post = step.pre, step.post
    # 1. things no automatic update may touch
    if cls in ("check", "check-locked", "prune", "regenerate-imports", "regenerate-exemptions", "regenerate-unpublished",
               "certify", "add-exemption", "fmt"):
        if other_local(pre) != other_local(post):
            out.append({"what": f"`{cmd}` altered criteria / wildcard audits / trusted entries / policy / import configuration"})
    if cls == "trust" and len(step.args) >= 3:
        # `trust <crate> <login> [--criteria ..]`: what may change is one trusted entry of that crate for that publisher
        # and exactly the criteria asked for (added, or its window updated); every other trusted entry — other crates,
        # other publishers, other criteria — and everything else in the local files stays as it was
        pkg, login = step.args[1], step.args[2]
        want = {step.args[i + 1] for i, a in enumerate(step.args[:-1]) if a == "--criteria"}

        def rest(snap):
            a, c = snap["audits"], snap["config"]
            return jkey({"criteria": a.get("criteria"), "wildcard": a.get("wildcard-audits"),
                         "policy": c.get("policy"), "imports": c.get("imports"), "default": c.get("default-criteria")})
        if rest(pre) != rest(post):
            out.append({"what": f"`{cmd}` altered criteria / wildcard audits / policy / import configuration"})
        pt, qt = pre["audits"].get("trusted") or {}, post["audits"].get("trusted") or {}

        def crit_of(e):
            # meaning, not spelling: cargo-vet writes the minimal names of what was asked for
            return jclosure(post["audits"], aslist(e.get("criteria")))
        want = jclosure(post["audits"], sorted(want)) if want else want
        for crate in sorted(set(pt) | set(qt)):
            P = Counter(json.dumps(e, sort_keys=True) for e in pt.get(crate, []))
            Q = Counter(json.dumps(e, sort_keys=True) for e in qt.get(crate, []))
            for txt in list((P - Q).elements()) + list((Q - P).elements()):
                e = json.loads(txt)
                if crate != pkg or f"user{e.get('user-id')}" != login or (want and crit_of(e) != want):
                    out.append({"what": f"`{cmd}` added, removed or altered a trusted entry it was not asked about: {crate} {txt[:160]}"})
                    break
    # 2. local audits
    pa, qa = local_audits(pre), local_audits(post)
    target = step.args[1] if cls in ("certify", "add-exemption", "record-violation") and len(step.args) > 1 else None
    added = qa - pa
    if cls == "certify":
        added = Counter({k: v for k, v in added.items() if k[0] != target})
        if sum(1 for k in (qa - pa) if k[0] == target) > 1:
            out.append({"what": f"`{cmd}` added more than the requested audit for {target}"})
    if cls == "certify":
        # what certify writes for the target denotes what was asked for (a folded prior audit had the same criteria)
        out += oracle_c05(step)
    if cls != "record-violation" and added:
        out.append({"what": f"`{cmd}` added or altered local audits: {sorted(added)[:2]}"})
    removed = pa - qa
    if cls in ("check", "check-locked", "fmt", "regenerate-unpublished", "add-exemption") or \
            (cls == "prune" and "--no-audits" in step.args):
        if removed:
            out.append({"what": f"`{cmd}` removed local audits although it must leave them untouched: {sorted(removed)[:2]}"})
    if cls == "certify" and any(k[0] != target for k in removed):
        out.append({"what": f"`{cmd}` removed local audits of crates other than {target}"})
    # 3. exemptions
    pe, qe = exemptions_sem(pre), exemptions_sem(post)
    if cls in ("regenerate-exemptions", "init"):
        pass
    else:
        for e in qe:
            if cls == "add-exemption" and e[0] == target:
                continue
            if not covered(e, pe):
                out.append({"what": f"`{cmd}` added or broadened an exemption: {e[0]} {e[1]} {sorted(e[2])}"})
                break
        must_equal = cls in ("check", "check-locked", "fmt", "regenerate-unpublished") or \
            (cls == "prune" and "--no-exemptions" in step.args)
        if must_equal and Counter(pe) != Counter(qe):
            out.append({"what": f"`{cmd}` changed exemptions semantically although it must leave them untouched"})
        if cls in ("certify", "add-exemption"):
            a = Counter(e for e in pe if e[0] != target)
            b = Counter(e for e in qe if e[0] != target)
            if a != b:
                out.append({"what": f"`{cmd}` changed exemptions of crates other than {target}"})
    # 4. imports.lock only records what is served now or was already locked
    if step.post_store and step.pre_store:
        live = set()
        ups = [t for t in step.taps if t["kind"] == "update"]
        if ups:
            live = lock_entries(ups[-1]["model_input"]["store"])
        was = lock_entries(step.pre_store["store"])
        now = lock_entries(step.post_store["store"])
        extra = now - was - live
        if extra:
            out.append({"what": f"`{cmd}` recorded in imports.lock something neither served now nor already locked: {sorted(extra, key=str)[:2]}"})
    # 5. the same against the remote state of the CASE (crates.io as generated), independently of what the
    #    implementation computed while going online: a newly recorded `unpublished` entry is for a version crates.io
    #    does not serve, audited as the nearest earlier (else next later) published version; a newly recorded
    #    publisher entry is a version crates.io serves with that very publisher
    reg = ((step.remote or {}).get("registry") or {}).get("packages")
    if reg is not None and cls != "check-locked" and isinstance(step.pre, dict) and isinstance(step.post, dict):
        def vkey(v):
            return gen.VERSIONS.index(v) if v in gen.VERSIONS else None
        pre_u = {(n, u.get("version"), u.get("audited_as")) for n, l in ((step.pre.get("imports") or {}).get("unpublished") or {}).items() for u in l}
        for n, l in ((step.post.get("imports") or {}).get("unpublished") or {}).items():
            served = [r["version"] for r in reg.get(n, [])]
            for u in l:
                key = (n, u.get("version"), u.get("audited_as"))
                if key in pre_u:
                    continue
                if u.get("version") in served:
                    out.append({"what": f"`{cmd}` recorded {n} {u.get('version')} as unpublished (audited as {u.get('audited_as')}) although crates.io serves that exact version"})
                    continue
                ks = [(vkey(x), x) for x in served if vkey(x) is not None]
                me = vkey(u.get("version"))
                if me is not None and ks and len(ks) == len(served):
                    below = [x for x in ks if x[0] < me]
                    want = max(below)[1] if below else min(x for x in ks if x[0] > me)[1]
                    if u.get("audited_as") != want:
                        out.append({"what": f"`{cmd}` recorded {n} {u.get('version')} as audited as {u.get('audited_as')}; the nearest earlier (else next later) published version is {want}"})
        pre_p = {(n, p.get("version")) for n, l in ((step.pre.get("imports") or {}).get("publisher") or {}).items() for p in l}
        for n, l in ((step.post.get("imports") or {}).get("publisher") or {}).items():
            byv = {r["version"]: r for r in reg.get(n, [])}
            for p_ in l:
                if (n, p_.get("version")) in pre_p:
                    continue
                r = byv.get(p_.get("version"))
                if r is None or r.get("by") != p_.get("user-id") or r.get("when") != p_.get("when"):
                    out.append({"what": f"`{cmd}` recorded a publisher entry for {n} {p_.get('version')} that crates.io does not serve ({r})"})
    return out


def only_removals(a_files, b_files):
    """b differs from a only by removed lines (per file), i.e. entries were dropped"""
    def norm(text):
        # entries only: drop blank lines, comments and plain table headers such as the
        # `[audits]` that is written when a table becomes empty
        # (the `# name (login)` remark after `user-id = N` is derived from the cached publisher
        # records, so it disappears with them: not an entry of its own)
        return [re.sub(r"^(user-id = \d+)\s*#.*$", r"\1", l.strip()) for l in text.splitlines()
                if l.strip() and not l.strip().startswith("#") and not re.match(r"^\[[^\[]", l.strip())]
    for k in ("config", "audits", "imports"):
        al, bl = norm(a_files[k]), norm(b_files[k])
        it = iter(al)
        if not all(any(x == y for y in it) for x in bl):
            return False
    return True


def oracle_c13(step):
    out = []
    if step.outcome != "ok":
        return out
    cls = step.cls
    cmd = " ".join(step.args)
    rep = step.s.get("repeat")
    if cls in ("check", "prune", "regenerate-imports", "regenerate-exemptions", "fmt", "trust") and rep:
        if rep["outcome"] == "ok" and not all(rep["same_bytes"]):
            f = None
            # the known finding: a second prune only DROPS entries the first one kept
            # (freshness promotion after the import); anything else is new
            # (the same pruning update, with the same mechanism, runs in regenerate imports / exemptions)
            if cls in ("prune", "regenerate-imports", "regenerate-exemptions", "trust") and rep.get("files") and \
                    only_removals(step.s["files"], rep["files"]) and not step.strict:
                f = "F-C13-prune"
            # the known finding for regenerate exemptions: the second run re-minimises the exemptions
            # the first run wrote (narrows / merges / drops / widens them); with other exemptions other
            # certification paths are chosen, so audits and imports.lock entries may follow.  The finding is
            # identified by its root: the EXEMPTIONS TABLE of the second run differs from the first's.  A second
            # run that leaves the exemptions alone and still changes a file is something else.
            if cls == "regenerate-exemptions" and rep.get("files"):
                ex = lambda t: (re.search(r"\[\[exemptions\..*", t, flags=re.S) or [""])[0] if re.search(r"\[\[exemptions\.", t) else ""  # noqa
                if ex(step.s["files"]["config"]) != ex(rep["files"]["config"]):
                    f = "F-C13-regenerate"
            out.append({"what": f"re-running `{cmd}` with unchanged inputs changed store files {rep['same_bytes']}", "finding": f})
    # a plain `cargo vet` right after a successful check / prune / regenerate imports finds nothing to write
    if cls in ("check", "prune", "regenerate-imports"):
        pc = step.s.get("post_check")
        if pc and pc.get("outcome") == "ok" and pc.get("same_bytes") is not None and not all(pc["same_bytes"]):
            out.append({"what": f"`cargo vet` right after a successful `{cmd}` (same remote state) rewrote store files {pc['same_bytes']}"})
    if cls == "check-locked" and step.pre is not None and step.post is not None:
        if jkey(step.pre) != jkey(step.post):
            out.append({"what": "`cargo vet --locked` changed the meaning of a store file"})
    if cls == "prune" and len(step.args) == 1:
        ups = [t for t in step.probe_taps[1] if t["kind"] == "update"]
        if len(ups) == 2 and step.concl("post_check") == "success":
            a, b = canon_updates(ups[0]["obs"]), canon_updates(ups[1]["obs"])
            if a != b:
                out.append({"what": "`cargo vet` right after `cargo vet prune` still advises pruning (advice and applied update differ)",
                            "finding": None if step.strict else "F-C13-prune"})
    return out


def run_histories(spec, cases, work, model_ok=True, compare_taps=True):
    send = [gen.strip_struct(c) for c in cases]
    obs = vetlib.run_harness(send, os.path.join(work, "impl"), timeout=1800)
    res = {"cases": [c["id"] for c in cases], "mismatches": [], "oracle_failures": [], "samples": [],
           "findings_seen": {}, "stats": {}}
    exprs = []
    for cid, o in obs.items():
        if o["status"] != "ok":
            continue
        for k, t in enumerate(o["taps"]):
            if spec.tap_relevant(t):
                exprs.append((f"{cid}#{k}", tap_expr(t)))
    model = vetlib.run_model(exprs, os.path.join(work, "model"), MODEL_IMPORTS, per_shard=60) if (model_ok and compare_taps) else {}
    bycase = {c["id"]: c for c in cases}
    cmds = Counter()
    outcomes = Counter()
    compared = 0
    nontrivial = 0
    # C13: the store files a successful real unlocked `cargo vet` leaves behind are in written form (the hypothesis under
    # which the model's check is proved to be a no-op): the executable test is evaluated on the re-loaded files
    if model_ok and getattr(spec, "check_written_form", False):
        wexprs = []
        for cid, o in obs.items():
            if o["status"] != "ok":
                continue
            for k, st_ in enumerate(o["steps"]):
                if cmd_class(st_["args"]) == "check" and st_["outcome"] == "ok" and o["post_stores"][k + 1]:
                    wexprs.append((f"{cid}%{k}", f"show_written {coq(o['post_stores'][k + 1]['store'])}"))
        wmodel = vetlib.run_model(wexprs, os.path.join(work, "model-written"), MODEL_IMPORTS + ["WrittenForm"]) if wexprs else {}
        for key, _ in wexprs:
            cid, k = key.rsplit("%", 1)
            m = wmodel.get(key, "MODEL-ERROR: missing")
            compared += 1
            if m.startswith("MODEL-ERROR") or " 0)" in m:
                res["mismatches"].append({"id": cid, "why": f"step {k}: the store written by a successful `cargo vet` is not in written form: {m[:300]}",
                                          "case": gen.strip_struct(bycase[cid])})
    # user-requested commands with logic of their own (`trust`): the model (coq/UserCommands.v) is run on the entries the
    # store held before the command and the request as typed, and compared with what the real command wrote
    if model_ok and getattr(spec, "compare_user_commands", False):
        uexprs, uwant = [], {}
        for cid, o in obs.items():
            if o["status"] != "ok":
                continue
            for k in range(len(o["steps"])):
                st = Step(k, bycase[cid], o)
                if st.cls == "trust" and isinstance(st.pre, dict) and isinstance(st.post, dict):
                    tc = usercmd.trust_case(st)
                    if tc:
                        uexprs.append((f"{cid}@{k}", tc[0]))
                        uwant[f"{cid}@{k}"] = tc[1]
        cexprs, cwant = [], {}
        for cid, o in obs.items():
            if o["status"] != "ok":
                continue
            for k in range(len(o["steps"])):
                st = Step(k, bycase[cid], o)
                if st.cls == "certify":
                    cc = usercmd.certify_case(st, o)
                    if cc:
                        cexprs.append((f"{cid}@{k}", cc[0]))
                        cwant[f"{cid}@{k}"] = cc[1]
        vexprs, vwant = [], {}
        for cid, o in obs.items():
            if o["status"] != "ok":
                continue
            for k in range(len(o["steps"])):
                st = Step(k, bycase[cid], o)
                pre_cfg = (o["steps"][k - 1].get("files") or {}).get("config") if k > 0 else ((bycase[cid].get("store") or {}).get("config") if isinstance(bycase[cid].get("store"), dict) else None)
                vc = usercmd.version_case(st, pre_cfg) if pre_cfg is not None else None
                if vc:
                    vexprs.append((f"{cid}@{k}", vc[0]))
                    vwant[f"{cid}@{k}"] = vc[1]
        vmodel = vetlib.run_model(vexprs, os.path.join(work, "model-version"), usercmd.VERSION_IMPORTS) if vexprs else {}
        for key, (what, wrote) in vwant.items():
            cid, k = key.rsplit("@", 1)
            m = vmodel.get(key, "MODEL-ERROR: missing")
            if m.startswith("MODEL-ERROR"):
                res["mismatches"].append({"id": cid, "why": f"step {k} (store version): model evaluation failed: {m[:300]}", "case": gen.strip_struct(bycase[cid])})
                continue
            compared += 1
            mk, mv = usercmd.canon_version(m)
            agree = (mk in ("outdated", "newer") and what == "refused") or (mk == "ok" and what != "refused" and (wrote is None or wrote == mv))
            if not agree:
                res["mismatches"].append({"id": cid, "why": f"step {k}: the store-version rule: the model says {mk} {mv}, the command {what} and wrote version {wrote}",
                                          "impl": json.dumps([what, wrote]), "model": json.dumps([mk, mv]), "case": gen.strip_struct(bycase[cid])})
        gexprs, gwant = [], {}
        for cid, o in obs.items():
            if o["status"] != "ok":
                continue
            for k in range(len(o["steps"])):
                st = Step(k, bycase[cid], o)
                if st.cls == "certify" and "--criteria" not in st.args:
                    gc = usercmd.guess_case(st, o)
                    if gc:
                        gexprs.append((f"{cid}@{k}", gc[0]))
                        gwant[f"{cid}@{k}"] = gc[1]
        gmodel = vetlib.run_model(gexprs, os.path.join(work, "model-guess"), usercmd.GUESS_IMPORTS) if gexprs else {}
        for key, want in gwant.items():
            cid, k = key.rsplit("@", 1)
            m = gmodel.get(key, "MODEL-ERROR: missing")
            if m.startswith("MODEL-ERROR"):
                res["mismatches"].append({"id": cid, "why": f"step {k} (certify, pre-selected criteria): model evaluation failed: {m[:300]}", "case": gen.strip_struct(bycase[cid])})
                continue
            compared += 1
            got = usercmd.canon_guess(m)
            if got != want:
                res["mismatches"].append({"id": cid, "why": f"step {k}: the criteria `{' '.join(obs[cid]['steps'][int(k)]['args'][:4])}` pre-selected (as a set, "
                                          "closed under implication) differ from the model's guess_audit_criteria",
                                          "impl": json.dumps(want)[:600], "model": json.dumps(got)[:600], "case": gen.strip_struct(bycase[cid])})
        guess_compared = len(gwant)
        cmodel = vetlib.run_model(cexprs, os.path.join(work, "model-certify"), usercmd.CERTIFY_IMPORTS) if cexprs else {}
        for key, want in cwant.items():
            cid, k = key.rsplit("@", 1)
            m = cmodel.get(key, "MODEL-ERROR: missing")
            if m.startswith("MODEL-ERROR"):
                res["mismatches"].append({"id": cid, "why": f"step {k} (certify): model evaluation failed: {m[:300]}", "case": gen.strip_struct(bycase[cid])})
                continue
            compared += 1
            got = usercmd.canon_certify(m)
            if got != want:
                res["mismatches"].append({"id": cid, "why": f"step {k}: the audit `{' '.join(obs[cid]['steps'][int(k)]['args'][:4])}` recorded differs from the model's "
                                          "(kind, from, to, meaning of the criteria list)",
                                          "impl": json.dumps(want)[:600], "model": json.dumps(got)[:600], "case": gen.strip_struct(bycase[cid])})
        certify_compared = len(cwant)
        umodel = vetlib.run_model(uexprs, os.path.join(work, "model-user"), usercmd.MODEL_IMPORTS) if uexprs else {}
        for key, want in uwant.items():
            cid, k = key.rsplit("@", 1)
            m = umodel.get(key, "MODEL-ERROR: missing")
            if m.startswith("MODEL-ERROR"):
                res["mismatches"].append({"id": cid, "why": f"step {k} (trust): model evaluation failed: {m[:300]}", "case": gen.strip_struct(bycase[cid])})
                continue
            compared += 1
            got = usercmd.canon_trust(m)
            if got != want:
                res["mismatches"].append({"id": cid, "why": f"step {k}: the trusted entries `{' '.join(obs[cid]['steps'][int(k)]['args'][:3])}` wrote differ from the model's",
                                          "impl": json.dumps(want)[:600], "model": json.dumps(got)[:600], "case": gen.strip_struct(bycase[cid])})
    for cid, o in obs.items():
        case = bycase[cid]
        if o["status"] == "refused":
            continue
        if o["status"] != "ok":
            res["mismatches"].append({"id": cid, "why": f"harness {o['status']}: " + str(o.get("panic") or o.get("error"))[:300],
                                      "case": gen.strip_struct(case)})
            continue
        if model_ok and compare_taps:
            for k, t in enumerate(o["taps"]):
                key = f"{cid}#{k}"
                if key not in model:
                    continue
                compared += 1
                ok, why = tap_agrees(t, model[key])
                if not ok:
                    res["mismatches"].append({"id": cid, "why": f"tap {k} (step {t['step']}, {t['kind']}): {why}",
                                              "impl": t["obs"][:600], "model": model[key][:600], "case": gen.strip_struct(case)})
                    break
        interesting = False
        for k in range(len(o["steps"])):
            st = Step(k, case, o)
            cmds[st.cls] += 1
            outcomes[(st.cls, st.outcome.split(":")[0][:12])] += 1
            for f in spec.step_oracle(st):
                res["oracle_failures"].append({"id": f"{cid}-s{k}", "what": f["what"], "finding": f.get("finding"),
                                               "case": gen.strip_struct(case)})
            if spec.step_nontrivial(st):
                interesting = True
        if interesting:
            nontrivial += 1
        if len(res["samples"]) < 2:
            res["samples"].append({"id": cid, "steps": [{"args": s["args"], "outcome": s["outcome"][:40], "changed": s["changed"],
                                                          "pre": (s.get("pre_check") or {}).get("conclusion"),
                                                          "post": (s.get("post_check") or {}).get("conclusion")} for s in o["steps"]],
                                   "initial_config": case["store"]["config"][:400]})
    for f in res["oracle_failures"]:
        if f.get("finding"):
            res["findings_seen"][f["finding"]] = True
    res["nontrivial"] = nontrivial
    res["stats"] = {"harness_status": dict(Counter(o["status"] for o in obs.values())), "commands": dict(cmds),
                    "certify_entries_compared_with_the_model": locals().get("certify_compared", 0),
                    "certify_guesses_compared_with_the_model": locals().get("guess_compared", 0),
                    "outcomes": {f"{a}:{b}": n for (a, b), n in sorted(outcomes.items())}, "compared": compared,
                    "taps": sum(len(o.get("taps", [])) for o in obs.values())}
    if res["mismatches"]:
        with open(os.path.join(work, "mismatches.json"), "w") as f:
            json.dump(res["mismatches"][:10], f, indent=1)
    return res
