"""vetlib.py — shared plumbing for the cargo-vet verification checks.

* TOML rendering of structured store descriptions (what the generators build)
* JSON -> Coq term conversion for the model inputs emitted by the Rust harness
* building/running the Rust harness (real cargo-vet code) and the Coq model
* small s-expression parser used by oracles
"""
import json
import os
import re
import subprocess
import sys
import hashlib
import time
import shutil
from concurrent.futures import ThreadPoolExecutor

VERIF = os.path.dirname(os.path.dirname(os.path.abspath(__file__)))
REPO = os.environ.get("VERIF_REPO", "/repo")
BUILD = os.path.join(VERIF, ".build")
COQ = os.path.join(VERIF, "coq")
TARGET = os.path.join(BUILD, "target")
NPROC = int(os.environ.get("VERIF_JOBS", "16"))


def log(*a):
    print(*a, file=sys.stderr, flush=True)


# --------------------------------------------------------------------------
# TOML rendering

def tstr(s):
    out = ['"']
    for ch in s:
        if ch == '"':
            out.append('\\"')
        elif ch == "\\":
            out.append("\\\\")
        elif ch == "\n":
            out.append("\\n")
        elif ch == "\t":
            out.append("\\t")
        elif ch == "\r":
            out.append("\\r")
        elif ord(ch) < 0x20 or ord(ch) == 0x7f:
            out.append("\\u%04x" % ord(ch))
        else:
            out.append(ch)
    out.append('"')
    return "".join(out)


def tkey(k):
    if re.fullmatch(r"[A-Za-z0-9_-]+", k):
        return k
    return tstr(k)


def tlist(l):
    if len(l) == 1:
        return tstr(l[0])
    return "[" + ", ".join(tstr(x) for x in l) + "]"


def tval(v):
    if isinstance(v, bool):
        return "true" if v else "false"
    if isinstance(v, int):
        return str(v)
    if isinstance(v, str):
        return tstr(v)
    if isinstance(v, list):
        return "[" + ", ".join(tval(x) for x in v) + "]"
    if isinstance(v, dict):
        return "{ " + ", ".join(f"{tkey(k)} = {tval(x)}" for k, x in v.items()) + " }"
    raise TypeError(v)


def render_audit_entry(a):
    L = []
    if a.get("who"):
        L.append(f"who = {tlist(a['who'])}")
    crit = a.get("criteria", [])
    L.append(f"criteria = {tlist(crit) if len(crit) != 0 else '[]'}")
    if a["kind"] == "full":
        L.append(f"version = {tstr(a['version'])}")
    elif a["kind"] == "delta":
        L.append(f"delta = {tstr(a['from'] + ' -> ' + a['to'])}")
    elif a["kind"] == "violation":
        L.append(f"violation = {tstr(a['violation'])}")
    if a.get("importable") is False:
        L.append("importable = false")
    if a.get("notes") is not None:
        L.append(f"notes = {tstr(a['notes'])}")
    if a.get("aggregated-from"):
        L.append(f"aggregated-from = {tval(a['aggregated-from'])}")
    for k, v in a.get("extra", {}).items():
        L.append(f"{tkey(k)} = {tval(v)}")
    return L


def render_wildcard(w, trusted=False):
    L = []
    if not trusted and w.get("who"):
        L.append(f"who = {tlist(w['who'])}")
    L.append(f"criteria = {tlist(w['criteria']) if w['criteria'] else '[]'}")
    L.append(f"user-id = {w['user-id']}")
    L.append(f"start = {tstr(w['start'])}")
    L.append(f"end = {tstr(w['end'])}")
    if not trusted and w.get("renew") is not None:
        L.append(f"renew = {tval(w['renew'])}")
    if w.get("notes") is not None:
        L.append(f"notes = {tstr(w['notes'])}")
    if w.get("aggregated-from"):
        L.append(f"aggregated-from = {tval(w['aggregated-from'])}")
    for k, v in w.get("extra", {}).items():
        L.append(f"{tkey(k)} = {tval(v)}")
    return L


def render_audits_file(f, prefix=""):
    """f: {"criteria": {...}, "wildcard_audits": {...}, "audits": {...}, "trusted": {...}}"""
    out = []
    for name, c in f.get("criteria", {}).items():
        out.append(f"[{prefix}criteria.{tkey(name)}]")
        if c.get("description") is not None:
            out.append(f"description = {tstr(c['description'])}")
        if c.get("description-url") is not None:
            out.append(f"description-url = {tstr(c['description-url'])}")
        if c.get("implies"):
            out.append(f"implies = {tlist(c['implies'])}")
        if c.get("aggregated-from"):
            out.append(f"aggregated-from = {tval(c['aggregated-from'])}")
        for k, v in c.get("extra", {}).items():
            out.append(f"{tkey(k)} = {tval(v)}")
        out.append("")
    for name, l in f.get("wildcard_audits", {}).items():
        for w in l:
            out.append(f"[[{prefix}wildcard-audits.{tkey(name)}]]")
            out.extend(render_wildcard(w))
            out.append("")
    if not any(f.get("audits", {}).values()):
        # (also when the table only has crates with EMPTY lists: the file must still carry its `audits` table)
        out.append(f"[{prefix}audits]")
        out.append("")
    for name, l in f.get("audits", {}).items():
        for a in l:
            out.append(f"[[{prefix}audits.{tkey(name)}]]")
            out.extend(render_audit_entry(a))
            out.append("")
    for name, l in f.get("trusted", {}).items():
        for t in l:
            out.append(f"[[{prefix}trusted.{tkey(name)}]]")
            out.extend(render_wildcard(t, trusted=True))
            out.append("")
    return "\n".join(out) + "\n"


def render_config(store):
    out = ["[cargo-vet]", 'version = "1.0"', ""]
    if store.get("default-criteria"):
        out.insert(0, f"default-criteria = {tstr(store['default-criteria'])}\n")
    for name, imp in store.get("imports", {}).items():
        out.append(f"[imports.{tkey(name)}]")
        out.append(f"url = {tlist(imp['url'])}")
        if imp.get("exclude"):
            out.append(f"exclude = {tval(imp['exclude'])}")
        if imp.get("criteria-map"):
            out.append("")
            out.append(f"[imports.{tkey(name)}.criteria-map]")
            for k, v in imp["criteria-map"].items():
                out.append(f"{tkey(k)} = {tlist(v) if v else '[]'}")
        out.append("")
    for key, p in store.get("policy", {}).items():
        out.append(f"[policy.{tkey(key)}]")
        if p.get("audit-as-crates-io") is not None:
            out.append(f"audit-as-crates-io = {tval(p['audit-as-crates-io'])}")
        if p.get("criteria") is not None:
            out.append(f"criteria = {tlist(p['criteria']) if p['criteria'] else '[]'}")
        if p.get("dev-criteria") is not None:
            out.append(f"dev-criteria = {tlist(p['dev-criteria']) if p['dev-criteria'] else '[]'}")
        if p.get("notes") is not None:
            out.append(f"notes = {tstr(p['notes'])}")
        if p.get("dependency-criteria"):
            out.append("")
            out.append(f"[policy.{tkey(key)}.dependency-criteria]")
            for k, v in p["dependency-criteria"].items():
                out.append(f"{tkey(k)} = {tlist(v) if v else '[]'}")
        out.append("")
    for name, l in store.get("exemptions", {}).items():
        for e in l:
            out.append(f"[[exemptions.{tkey(name)}]]")
            out.append(f"version = {tstr(e['version'])}")
            out.append(f"criteria = {tlist(e['criteria']) if e['criteria'] else '[]'}")
            if e.get("suggest") is False:
                out.append("suggest = false")
            if e.get("notes") is not None:
                out.append(f"notes = {tstr(e['notes'])}")
            out.append("")
    return "\n".join(out) + "\n"


def render_imports(lock):
    out = []
    for name, l in lock.get("unpublished", {}).items():
        for u in l:
            out.append(f"[[unpublished.{tkey(name)}]]")
            out.append(f"version = {tstr(u['version'])}")
            out.append(f"audited_as = {tstr(u['audited_as'])}")
            out.append("")
    for name, l in lock.get("publisher", {}).items():
        for p in l:
            out.append(f"[[publisher.{tkey(name)}]]")
            out.append(f"version = {tstr(p['version'])}")
            out.append(f"when = {tstr(p['when'])}")
            out.append(f"user-id = {p['user-id']}")
            out.append(f"user-login = {tstr(p['user-login'])}")
            if p.get("user-name") is not None:
                out.append(f"user-name = {tstr(p['user-name'])}")
            out.append("")
    text = "\n".join(out) + ("\n" if out else "")
    for name, f in lock.get("audits", {}).items():
        text += render_audits_file(f, prefix=f"audits.{tkey(name)}.")
    return text


def render_store(store):
    return {
        "config": render_config(store),
        "audits": render_audits_file(store),
        "imports": render_imports(store.get("lock", {})),
    }


# --------------------------------------------------------------------------
# JSON -> Coq terms (convention documented in the harness)

def coq(v):
    if v is None:
        return "None"
    if v is True:
        return "true"
    if v is False:
        return "false"
    if isinstance(v, int):
        return f"{v}%N"
    if isinstance(v, list):
        return "[" + "; ".join(coq(x) for x in v) + "]"
    if isinstance(v, dict):
        if "_nat" in v:
            return f"{v['_nat']}%nat"
        if "_z" in v:
            return f"({v['_z']})%Z"
        if "_pair" in v:
            a, b = v["_pair"]
            return f"({coq(a)}, {coq(b)})"
        if "_some" in v:
            return f"(Some {coq(v['_some'])})"
        if "_c" in v:
            if not v["a"]:
                return v["_c"]
            return "(" + v["_c"] + " " + " ".join(coq(x) for x in v["a"]) + ")"
    raise TypeError(f"cannot convert {v!r}")


# --------------------------------------------------------------------------
# s-expressions

def parse_sexp(s):
    toks = re.findall(r"\(|\)|[^\s()]+", s)
    pos = 0

    def rd():
        nonlocal pos
        t = toks[pos]
        pos += 1
        if t == "(":
            l = []
            while toks[pos] != ")":
                l.append(rd())
            pos += 1
            return l
        return t
    r = rd()
    return r


def sexp_get(e, tag):
    for x in e[1:]:
        if isinstance(x, list) and x and x[0] == tag:
            return x
    return None


# --------------------------------------------------------------------------
# Rust harness

def cargo_env():
    env = dict(os.environ)
    env["RUSTFLAGS"] = (env.get("RUSTFLAGS", "") + " --cfg cargo_vet_verif").strip()
    env["CARGO_TARGET_DIR"] = TARGET
    env["CARGO_NET_OFFLINE"] = "true"
    return env


_harness_bin = None


def build_harness():
    """(re)build the unit-test binary of /repo's working tree with the guard on"""
    global _harness_bin
    if _harness_bin:
        return _harness_bin
    os.makedirs(BUILD, exist_ok=True)
    t0 = time.time()
    p = subprocess.run(
        ["cargo", "test", "--offline", "--no-run", "--bin", "cargo-vet", "--message-format=json"],
        cwd=REPO, env=cargo_env(), capture_output=True, text=True)
    if p.returncode != 0:
        msgs = []
        for line in p.stdout.splitlines():
            try:
                m = json.loads(line)
            except ValueError:
                continue
            if m.get("reason") == "compiler-message" and m["message"].get("level") == "error":
                msgs.append(m["message"].get("rendered", ""))
        raise RuntimeError("harness build failed:\n" + "\n".join(msgs[:5]) + p.stderr[-2000:])
    exe = None
    for line in p.stdout.splitlines():
        try:
            m = json.loads(line)
        except ValueError:
            continue
        if m.get("reason") == "compiler-artifact" and m.get("executable") and m["target"]["name"] == "cargo-vet" and m["profile"]["test"]:
            exe = m["executable"]
    if not exe:
        raise RuntimeError("harness build: test executable not found")
    log(f"[harness] built in {time.time() - t0:.1f}s: {exe}")
    _harness_bin = exe
    return exe


def run_harness(cases, workdir, shards=NPROC, timeout=900):
    """cases: list of dicts (with 'id'); returns dict id -> observation"""
    exe = build_harness()
    os.makedirs(workdir, exist_ok=True)
    shards = max(1, min(shards, len(cases)))
    chunks = [cases[i::shards] for i in range(shards)]

    def one(i):
        cp = os.path.join(workdir, f"cases_{i}.jsonl")
        op = os.path.join(workdir, f"obs_{i}.jsonl")
        with open(cp, "w") as f:
            for c in chunks[i]:
                f.write(json.dumps(c) + "\n")
        env = dict(os.environ)
        env["VERIF_CASES"] = cp
        env["VERIF_OUT"] = op
        env["RUST_BACKTRACE"] = "0"
        p = subprocess.run([exe, "tests::verif_harness::verif_run", "--exact", "--test-threads=1"],
                           cwd=REPO, env=env, capture_output=True, text=True, timeout=timeout)
        res = {}
        if os.path.exists(op):
            with open(op) as f:
                for line in f:
                    line = line.strip()
                    if line:
                        try:
                            o = json.loads(line)
                        except ValueError:
                            continue
                        res[o["id"]] = o
        for c in chunks[i]:
            if c["id"] not in res:
                res[c["id"]] = {"id": c["id"], "status": "harness_crash",
                                "error": (p.stdout[-1500:] + p.stderr[-1500:])}
        return res

    out = {}
    with ThreadPoolExecutor(max_workers=shards) as ex:
        for r in ex.map(one, range(shards)):
            out.update(r)
    return out


# --------------------------------------------------------------------------
# Coq model

LAST_TRANSLATE_NOTES = []


def coq_build(targets=None, timeout=1500):
    """regenerate Extracted.v from the source, then (re)build the .vo files"""
    t0 = time.time()
    p = subprocess.run([sys.executable, os.path.join(VERIF, "tools", "translate.py"),
                        os.path.join(COQ, "Extracted.v")], capture_output=True, text=True)
    if p.returncode != 0:
        return False, "translate.py failed: " + p.stderr.strip()
    tnote = p.stderr.strip()       # facts not re-read from the source this run (fallback values or missing)
    global LAST_TRANSLATE_NOTES
    LAST_TRANSLATE_NOTES = [l for l in tnote.splitlines() if l.strip()]
    if not os.path.exists(os.path.join(COQ, "Makefile")) or \
            os.path.getmtime(os.path.join(COQ, "Makefile")) < os.path.getmtime(os.path.join(COQ, "_CoqProject")):
        q = subprocess.run(["coq_makefile", "-f", "_CoqProject", "-o", "Makefile"], cwd=COQ,
                           capture_output=True, text=True)
        if q.returncode != 0:
            return False, "coq_makefile failed: " + q.stderr
    cmd = ["timeout", str(timeout), "make", f"-j{NPROC}"]
    if targets:
        cmd += targets
    q = subprocess.run(cmd, cwd=COQ, capture_output=True, text=True)
    log(f"[coq] make {' '.join(targets or ['all'])}: rc={q.returncode} in {time.time() - t0:.1f}s")
    if q.returncode != 0:
        err = [l for l in (q.stdout + q.stderr).splitlines() if not l.startswith(("COQC", "COQDEP", "make"))]
        return False, (tnote + "\n" if tnote else "") + "\n".join(err[-30:])
    return True, q.stdout + q.stderr


def run_model(exprs, workdir, imports, shards=NPROC, per_shard=120, timeout=900, prelude=""):
    """exprs: list of (id, coq expression of type string).  Evaluates each with
    vm_compute in sharded coqc runs; returns dict id -> string (or error)."""
    os.makedirs(workdir, exist_ok=True)
    if not exprs:
        return {}
    nshards = max(1, min(max(shards, (len(exprs) + per_shard - 1) // per_shard), len(exprs)))
    chunks = [exprs[i::nshards] for i in range(nshards)]

    def one(i):
        name = f"cases_{i}"
        vp = os.path.join(workdir, name + ".v")
        with open(vp, "w") as f:
            f.write(f"Require Import {' '.join(imports)}.\n")
            f.write("From Coq Require Import String.\nImport ListNotations.\n")
            f.write("Set Printing Width 100000000.\nSet Printing Depth 100000000.\n")
            f.write(prelude + "\n")
            for k, (cid, e) in enumerate(chunks[i]):
                f.write(f"Definition case_{k} : string := {e}.\n")
                f.write(f"Eval vm_compute in (\"@@{k}\"%string, case_{k}).\n")
        p = subprocess.run(["timeout", str(timeout), "coqc", "-noglob", "-R", COQ, "CV", vp],
                           cwd=workdir, capture_output=True, text=True)
        res = {}
        txt = p.stdout
        for m in re.finditer(r'= \("@@(\d+)"(?:%string)?,\s*"((?:[^"]|"")*)"(?:%string)?\)', txt):
            k = int(m.group(1))
            res[chunks[i][k][0]] = m.group(2).replace('""', '"')
        if p.returncode != 0 or len(res) != len(chunks[i]):
            err = (p.stderr or "")[-1500:]
            for cid, _ in chunks[i]:
                res.setdefault(cid, "MODEL-ERROR: " + err)
        for ext in (".vo", ".vok", ".vos", ".glob"):
            try:
                os.remove(os.path.join(workdir, name + ext))
            except OSError:
                pass
        return res

    out = {}
    with ThreadPoolExecutor(max_workers=min(NPROC, nshards)) as ex:
        for r in ex.map(one, range(nshards)):
            out.update(r)
    return out


def fresh_dir(path):
    shutil.rmtree(path, ignore_errors=True)
    os.makedirs(path, exist_ok=True)
    return path


def sha(s):
    return hashlib.sha256(s.encode()).hexdigest()[:16]
