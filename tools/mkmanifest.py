#!/usr/bin/env python3
"""regenerate MANIFEST.json from the property registry (keeps it valid at all times)"""
import json, os, sys
sys.path.insert(0, os.path.dirname(os.path.abspath(__file__)))
import props

ALL = [f"C{i:02d}" for i in range(1, 20)]
NOT_YET = {}
checks = []
for pid in ALL:
    if pid in props.REGISTRY:
        s = props.REGISTRY[pid]
        checks.append({
            "property_id": pid,
            "quick_cmd": f"python3 tools/check.py {pid} --tier quick",
            "thorough_cmd": f"python3 tools/check.py {pid} --tier thorough",
            "evidence_file": f"/verif/evidence/{pid}.json",
            "replay_cmd_template": f"python3 tools/check.py {pid} --replay {{path}}",
            "engine": "coq-model+correspondence",
            "level_claimed": {"category": "proof", "text": s.level_text, "design_ref": s.design_ref},
            "level_note": s.level_note,
            "technique": s.technique,
        })
na = [{"property_id": pid, "reason": props.NOT_CLAIMED.get(pid, "check not yet built in this revision; see DESIGN.md §10")}
      for pid in ALL if pid not in props.REGISTRY]
m = {
    "version": 1,
    "setup_cmd": "sh tools/setup.sh",
    "hooks": {
        "guard": "--cfg cargo_vet_verif",
        "enable": "RUSTFLAGS=\"--cfg cargo_vet_verif\" CARGO_TARGET_DIR=/verif/.build/target cargo test --offline --no-run --bin cargo-vet (done by tools/vetlib.py build_harness)",
        "baseline_off_cmd": "cd /repo && cargo test --workspace --no-fail-fast --offline",
        "source_commits": props.HOOK_COMMITS,
        "add_only": True,
    },
    "engines": [{"name": "coq-model+correspondence", "path": "/verif/coq, /verif/tools",
                 "serves_properties": sorted(props.REGISTRY),
                 "kind_free_text": "Gallina model of cargo-vet's decision logic with theorems per property (Coq 8.16.1), Extracted.v regenerated from /repo/src on every run, and a differential correspondence check against the real code driven through a cfg-guarded harness"}],
    "checks": checks,
    "notes": "see DESIGN.md; known findings in known-findings.txt",
    "not_applicable": na,
}
with open(os.path.join(os.path.dirname(os.path.dirname(os.path.abspath(__file__))), "MANIFEST.json"), "w") as f:
    json.dump(m, f, indent=1)
print("MANIFEST.json:", len(checks), "checks,", len(na), "not claimed")
