#!/bin/sh
# run registered checks against a seeded change: apply it to /repo, run the checks, undo it.
# usage: try_seed.sh <patch.diff> <tier> <check-id>...     (never commits anything in /repo)
P=$1; T=$2; shift 2
cd /repo || exit 2
test -z "$(git status --porcelain)" || { echo "/repo is not clean"; exit 2; }
git apply "$P" || exit 3
trap 'git -C /repo checkout -- .; git -C /verif checkout -- evidence' EXIT INT TERM
for id in "$@"; do
  echo "== $id ($T) against $(basename $(dirname $P))"
  (cd /verif && python3 tools/check.py $id --tier $T > /verif/.build/try_$id.log 2>&1; echo "   exit=$?")
  grep -E "^VIOLATION|^KNOWN-FINDING" /verif/.build/try_$id.log | head -8
done
