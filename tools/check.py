#!/usr/bin/env python3
"""check.py — per-property check driver.

  tools/check.py Cxx [--tier quick|thorough] [--seed N] [--replay FILE]

1. regenerate coq/Extracted.v from /repo/src, rebuild the property's .vo closure,
   audit `Print Assumptions` and grep for forbidden declarations;
2. rebuild the Rust harness from /repo's working tree (guard on), run corpus +
   generated cases on the implementation and on the model, compare the
   property's projection of both observations;
3. replay the known-finding witnesses on the implementation;
4. run the property's direct oracle on the implementation observations;
5. write evidence/<id>.json; exit 0 / exit 1 with VIOLATION lines.
"""
import argparse
import fcntl
import glob
import json
import os
import sys as _sys
if os.environ.get("PYTHONHASHSEED") != "0":
    # generators must not depend on the per-process string hash (set iteration order)
    os.environ["PYTHONHASHSEED"] = "0"
    os.execv(_sys.executable, [_sys.executable] + _sys.argv)
import random
import re
import subprocess
import sys
import time
import traceback

sys.path.insert(0, os.path.dirname(os.path.abspath(__file__)))
import vetlib  # noqa: E402
from vetlib import VERIF, COQ, BUILD, log  # noqa: E402
import props  # noqa: E402

FORBIDDEN = re.compile(r"\b(Admitted|admit|Axiom|Axioms|Parameter|Parameters|Conjecture|Hypothesis|Variable)\b|Unset Guard|bypass_check|type-in-type|impredicative-set|Admit Obligations")


def forbidden_scan():
    """no Admitted/Axiom/... anywhere in the development (Variables are allowed
    inside Sections only; we use `Variables` in sections of proofs/*.v)"""
    bad = []
    for path in glob.glob(os.path.join(COQ, "**", "*.v"), recursive=True):
        depth = 0
        with open(path) as f:
            text = f.read()
        text = re.sub(r"\(\*.*?\*\)", lambda m: " " * len(m.group(0)), text, flags=re.S)
        for ln, line in enumerate(text.splitlines(), 1):
            if re.match(r"\s*Section\b", line):
                depth += 1
            if re.match(r"\s*End\b", line) and depth > 0:
                depth -= 1
            for m in FORBIDDEN.finditer(line):
                w = m.group(0)
                if w in ("Variable", "Variables", "Hypothesis") and depth > 0:
                    continue
                if w == "Variables" and depth > 0:
                    continue
                bad.append(f"{os.path.relpath(path, VERIF)}:{ln}: {w}")
    return bad


def assumptions_audit(spec):
    """compile the property's theorem file(s) to a scratch .vo and read what
    Print Assumptions says under every theorem"""
    out = []
    ok = True
    tmp = vetlib.fresh_dir(os.path.join(BUILD, "assume", spec.pid))
    for vf in spec.coq_files:
        src = os.path.join(COQ, vf)
        p = subprocess.run(["timeout", "600", "coqc", "-noglob", "-R", COQ, "CV", "-o",
                            os.path.join(tmp, os.path.basename(vf) + "o"), src],
                           capture_output=True, text=True, cwd=COQ)
        if p.returncode != 0:
            return False, [f"{vf}: does not compile: " + (p.stderr.strip().splitlines() or ["?"])[-1]], 0, 0
        text = p.stdout
        nprint = len(re.findall(r"^\s*Print Assumptions\b", open(src).read(), flags=re.M))
        closed = len(re.findall(r"Closed under the global context", text))
        axioms = re.findall(r"^Axioms:\n((?:.+\n?)+)", text, flags=re.M)
        allowed = set(spec.allowed_axioms)
        used = []
        for blk in axioms:
            for line in blk.splitlines():
                m = re.match(r"^(\S+)\s*:", line)
                if m:
                    used.append(m.group(1))
        extra = [a for a in used if a not in allowed]
        out.append({"file": vf, "print_assumptions": nprint, "closed": closed, "axioms": sorted(set(used))})
        if extra or closed + len(axioms) != nprint:
            ok = False
            out[-1]["problem"] = f"unexpected axioms {extra}" if extra else "Print Assumptions output incomplete"
    nthm = sum(o["print_assumptions"] for o in out)
    return ok, out, nthm, sum(o["closed"] for o in out) + sum(1 for o in out for _ in o["axioms"])


def coqchk_audit(spec):
    """thorough tier: re-check the compiled property files and everything they depend on with the independent
    checker, and read its report on axioms / type-in-type / unsafe fixpoints / assumed positivity"""
    mods = ["CV." + f[:-2].replace("/", ".") for f in spec.coq_files]
    p = subprocess.run(["timeout", "1500", "coqchk", "-silent", "-o", "-R", COQ, "CV"] + mods,
                       capture_output=True, text=True, cwd=COQ)
    text = p.stdout + p.stderr
    if p.returncode != 0:
        return False, "coqchk failed: " + text.strip()[-300:]
    wanted = ["Axioms: <none>", "relying on type-in-type: <none>", "relying on unsafe (co)fixpoints: <none>",
              "positivity is assumed: <none>"]
    missing = [w for w in wanted if w not in text]
    if missing:
        return False, "coqchk reports: " + " | ".join(l.strip() for l in text.splitlines() if l.strip().startswith("*"))[:600]
    return True, "coqchk -o on " + " ".join(mods) + ": Axioms <none>; type-in-type <none>; unsafe fixpoints <none>; assumed positivity <none>"


def load_known_findings(pid):
    path = os.path.join(VERIF, "known-findings.txt")
    out = []
    if os.path.exists(path):
        for line in open(path):
            line = line.strip()
            m = re.match(r"finding:\s+property=(\S+)\s+id=(\S+)\s+witness=(\S+)\s+(.*)", line)
            if m and m.group(1) == pid:
                out.append({"id": m.group(2), "witness": m.group(3), "what": m.group(4)})
    return out


def main():
    ap = argparse.ArgumentParser()
    ap.add_argument("property")
    ap.add_argument("--tier", default=os.environ.get("VERIF_TIER", "quick"))
    ap.add_argument("--seed", type=int, default=int(os.environ.get("VERIF_SEED", "1") or 1))
    ap.add_argument("--replay")
    ap.add_argument("--cases", type=int)
    a = ap.parse_args()
    pid = a.property
    t0 = time.time()
    spec = props.get(pid)
    os.makedirs(BUILD, exist_ok=True)
    os.makedirs(os.path.join(VERIF, "evidence", "replay"), exist_ok=True)

    violations = []      # (replay_path, text, no_failing_input)
    notes = []
    coqchk_note = None
    proof_ok = True
    corr_ok = True

    # ---- 1. proofs -------------------------------------------------------
    lockf = open(os.path.join(BUILD, "lock"), "w")
    fcntl.flock(lockf, fcntl.LOCK_EX)
    try:
        targets = [f[:-2] + ".vo" for f in spec.coq_files] + [m + ".vo" for m in spec.model_modules_paths()]
        ok, msg = vetlib.coq_build(targets)
        for tn in vetlib.LAST_TRANSLATE_NOTES:
            notes.append(tn)
        if not ok:
            proof_ok = False
            notes.append("coq build failed: " + msg[-1500:])
        bad = forbidden_scan()
        if bad:
            proof_ok = False
            notes.append("forbidden declarations: " + "; ".join(bad[:10]))
        if ok:
            aok, audit, nthm, ndis = assumptions_audit(spec)
            if not aok:
                proof_ok = False
                notes.append("assumption audit failed: " + json.dumps(audit))
            if a.tier == "thorough" and not a.replay:
                cok, cmsg = coqchk_audit(spec)
                coqchk_note = cmsg
                if not cok:
                    proof_ok = False
                    notes.append("coqchk: " + cmsg)
        else:
            audit, nthm, ndis = [], 0, 0
        # ---- 2. harness --------------------------------------------------
        try:
            vetlib.build_harness()
            harness_ok = True
        except Exception as e:  # noqa
            harness_ok = False
            corr_ok = False
            notes.append(f"harness build failed: {e}")
    finally:
        # keep a SHARED lock while the model and the harness are being run, so that a concurrent check cannot
        # rebuild the .vo files or the test binary underneath this one (it waits for the exclusive lock above)
        fcntl.flock(lockf, fcntl.LOCK_SH)

    rng = random.Random(a.seed)
    work = vetlib.fresh_dir(os.path.join(BUILD, "run", f"{pid}-{a.tier}"))
    stats = {}
    result = {"cases": [], "mismatches": [], "oracle_failures": [], "samples": [], "nontrivial": 0}
    kf_lines = []
    if harness_ok:
        try:
            result = spec.run(rng, a.tier, work, model_ok=proof_ok or ok, ncases=a.cases, replay=a.replay)
        except Exception:
            corr_ok = False
            notes.append("check machinery error: " + traceback.format_exc()[-2000:])
        stats = result.get("stats", {})
        known = load_known_findings(pid)
        known_ids = {k["id"] for k in known}
        # mismatches between model and implementation
        for mm in result.get("mismatches", []):
            corr_ok = False
        # oracle failures: concrete failing inputs on the implementation
        for of in result.get("oracle_failures", []):
            if of.get("finding") in known_ids:
                continue
            path = os.path.join(VERIF, "evidence", "replay", f"{pid}-{of['id']}.json")
            with open(path, "w") as f:
                json.dump({"property": pid, "what": of["what"], "case": of["case"]}, f, indent=1)
            violations.append((path, of["what"], False))
        # make the first replay small (time-boxed; never decides anything)
        fresh = [of for of in result.get("oracle_failures", []) if of.get("finding") not in known_ids]
        if fresh and not a.replay and os.environ.get("VERIF_NO_SHRINK") != "1":
            try:
                import shrink
                m = shrink.minimise(spec, pid, fresh[0], os.path.join(BUILD, "shrink", pid), budget_s=float(os.environ.get("VERIF_SHRINK_S", "40")))
                if m:
                    mpath = os.path.join(VERIF, "evidence", "replay", f"{pid}-{fresh[0]['id']}.min.json")
                    with open(mpath, "w") as f:
                        json.dump({"property": pid, "what": fresh[0]["what"], "case": m["case"],
                                   "note": f"minimised from {pid}-{fresh[0]['id']}.json: {m['removed']} steps/records dropped in {m['trials']} trials; "
                                           "the same oracle failure is reported on this input"}, f, indent=1)
                    opath = os.path.join(VERIF, "evidence", "replay", f"{pid}-{fresh[0]['id']}.json")
                    with open(opath) as f:
                        orig = json.load(f)
                    orig["minimized"] = mpath
                    with open(opath, "w") as f:
                        json.dump(orig, f, indent=1)
                    notes.append(f"minimised replay: {mpath} ({m['removed']} steps/records dropped in {m['trials']} trials)")
            except Exception:
                notes.append("shrinking failed (ignored): " + traceback.format_exc()[-400:])
        # known findings: replayed by spec.run (result["findings_seen"])
        for k in known:
            if k["id"] in result.get("findings_seen", {}):
                kf_lines.append(f"KNOWN-FINDING: property={pid} {k['id']}: {k['what']}")

    if (not proof_ok or not corr_ok) and not violations:
        # nothing concrete found: still a violation, naming what no longer checks
        path = os.path.join(VERIF, "evidence", "replay", f"{pid}-unproved.json")
        with open(path, "w") as f:
            json.dump({"property": pid, "proof_ok": proof_ok, "correspondence_ok": corr_ok,
                       "theorem_files": spec.coq_files, "notes": notes,
                       "mismatches": result.get("mismatches", [])[:5]}, f, indent=1)
        violations.append((path, "proof obligation or model/implementation correspondence no longer checks", True))

    # ---- evidence --------------------------------------------------------
    wall = time.time() - t0
    ev = {
        "property_id": pid, "tier": a.tier if a.tier in ("quick", "thorough") else "quick", "seed": a.seed,
        "level": "proof",
        "coverage": {
            "obligations": max(nthm, 1) if proof_ok else max(nthm, 1),
            "discharged": nthm if proof_ok else 0,
            "checker_cmd": f"make -C coq {' '.join(f[:-2] + '.vo' for f in spec.coq_files)} (coqc 8.16.1, full .vo) + Print Assumptions audit",
            "trusted_base": spec.trusted_base(audit) + ([coqchk_note] if coqchk_note else []),
            "theorems": spec.theorems,
            "assumption_audit": audit,
            "evaluations": len(result.get("cases", [])),
            "distinct_nontrivial": result.get("nontrivial", 0),
            "rule": spec.rule,
            "samples": result.get("samples", [])[:3],
            "correspondence": {"compared": stats.get("compared", 0), "mismatches": len(result.get("mismatches", [])),
                               "projection": spec.projection_doc},
            "input_distribution": stats,
            "known_findings_replayed": sorted(result.get("findings_seen", {}).keys()) if isinstance(result.get("findings_seen"), dict) else [],
            "notes": notes,
        },
        "assumptions": spec.assumptions,
        "wall_s": round(wall, 1),
        "violations": len(violations),
    }
    with open(os.path.join(VERIF, "evidence", f"{pid}.json"), "w") as f:
        json.dump(ev, f, indent=1)

    for l in kf_lines:
        print(l)
    for path, what, nofail in violations:
        print(f"VIOLATION property={pid} replay={path}" + (" no-failing-input-found" if nofail else ""))
        log("  " + what)
    for n in notes:
        log("note: " + n[:600])
    log(f"[{pid}] {a.tier}: {len(result.get('cases', []))} cases, {len(result.get('mismatches', []))} mismatches, "
        f"{len(violations)} violations, {wall:.0f}s")
    sys.exit(1 if violations else 0)


if __name__ == "__main__":
    main()
