#!/usr/bin/env python3
"""translate.py — regenerate coq/Extracted.v from /repo/src on every run.

Only *table-like* facts are translated (enum variant orders, UpdateMode
literals per command, the publisher-window guard, constants).  Items are found
by name with bracket matching, never by line number.  If an item is missing or
has a shape this script does not understand it exits non-zero, which the check
treats as a broken correspondence.  Part of the trusted base (see DESIGN.md §8).
"""
import json
import re
import sys
import os

REPO = os.environ.get("VERIF_REPO", "/repo")


class TranslateError(Exception):
    pass


def read(path):
    with open(os.path.join(REPO, path), encoding="utf-8") as f:
        return f.read()


def strip_comments(src):
    # remove // comments and /* */ comments, keep string literals intact enough
    out = []
    i = 0
    n = len(src)
    while i < n:
        c = src[i]
        if c == '"':
            j = i + 1
            while j < n and src[j] != '"':
                if src[j] == '\\':
                    j += 1
                j += 1
            out.append(src[i:j + 1])
            i = j + 1
        elif src.startswith("//", i):
            j = src.find("\n", i)
            if j < 0:
                j = n
            i = j
        elif src.startswith("/*", i):
            j = src.find("*/", i)
            i = n if j < 0 else j + 2
        elif c == "'" and i + 2 < n and src[i + 2] == "'":
            out.append(src[i:i + 3])
            i += 3
        else:
            out.append(c)
            i += 1
    return "".join(out)


def match_brace(src, open_idx, open_ch="{", close_ch="}"):
    assert src[open_idx] == open_ch, (src[open_idx:open_idx + 20])
    depth = 0
    i = open_idx
    n = len(src)
    while i < n:
        c = src[i]
        if c == '"':
            j = i + 1
            while j < n and src[j] != '"':
                if src[j] == '\\':
                    j += 1
                j += 1
            i = j
        elif c == open_ch:
            depth += 1
        elif c == close_ch:
            depth -= 1
            if depth == 0:
                return i
        i += 1
    raise TranslateError("unbalanced braces")


def item_body(src, header_re, what):
    m = re.search(header_re, src)
    if not m:
        raise TranslateError(f"cannot find {what}")
    ob = src.find("{", m.end() - 1)
    cb = match_brace(src, ob)
    return src[ob + 1:cb]


def fn_body(src, name):
    m = re.search(r"\bfn\s+" + re.escape(name) + r"\s*(<[^>]*>)?\s*\(", src)
    if not m:
        raise TranslateError(f"cannot find fn {name}")
    # skip the parameter list
    op = src.find("(", m.end() - 1)
    cp = match_brace(src, op, "(", ")")
    ob = src.find("{", cp)
    cb = match_brace(src, ob)
    return src[ob + 1:cb]


def enum_variants(src, name):
    body = item_body(src, r"\benum\s+" + re.escape(name) + r"\s*\{", f"enum {name}")
    # remove attribute lines and nested field blocks
    out = []
    i = 0
    depth = 0
    cur = ""
    while i < len(body):
        c = body[i]
        if c in "{(":
            depth += 1
        elif c in "})":
            depth -= 1
        elif c == "," and depth == 0:
            out.append(cur)
            cur = ""
            i += 1
            continue
        if depth == 0 or (depth == 1 and c in "{("):
            if c not in "{(":
                cur += c
        i += 1
    if cur.strip():
        out.append(cur)
    names = []
    for v in out:
        v = re.sub(r"#\[[^\]]*\]", "", v).strip()
        if not v:
            continue
        m = re.match(r"([A-Za-z_][A-Za-z0-9_]*)", v)
        if not m:
            raise TranslateError(f"bad variant in enum {name}: {v!r}")
        names.append(m.group(1))
    if not names:
        raise TranslateError(f"enum {name} has no variants")
    return names


def split_top(s, sep=","):
    parts = []
    depth = 0
    cur = ""
    for c in s:
        if c in "{([":
            depth += 1
        elif c in "})]":
            depth -= 1
        if c == sep and depth == 0:
            parts.append(cur)
            cur = ""
        else:
            cur += c
    if cur.strip():
        parts.append(cur)
    return parts


MODE = {"PreferExemptions", "PreferFreshImports", "RegenerateExemptions"}


def tr_expr(e):
    """translate the small expression language used in UpdateMode literals"""
    e = e.strip()
    m = re.fullmatch(r"if\s+(.*?)\s*\{(.*)\}\s*else\s*\{(.*)\}", e, re.S)
    if m:
        return f"(if {tr_expr(m.group(1))} then {tr_expr(m.group(2))} else {tr_expr(m.group(3))})"
    if e in ("true", "false"):
        return e
    m = re.fullmatch(r"(?:resolver::)?SearchMode::(\w+)", e)
    if m and m.group(1) in MODE:
        return m.group(1)
    if re.fullmatch(r"name\s*==\s*&?package(\[\.\.\])?", e):
        return "is_target"
    m = re.fullmatch(r"(!?)\s*sub_args\.(no_imports|no_exemptions|no_audits)", e)
    if m:
        return f"(negb {m.group(2)})" if m.group(1) else m.group(2)
    raise TranslateError(f"unsupported UpdateMode expression: {e!r}")


def update_modes(body, fn):
    res = []
    for m in re.finditer(r"UpdateMode\s*\{", body):
        ob = m.end() - 1
        cb = match_brace(body, ob)
        fields = {}
        for part in split_top(body[ob + 1:cb]):
            part = part.strip()
            if not part:
                continue
            k, _, v = part.partition(":")
            fields[k.strip()] = tr_expr(v)
        want = ["search_mode", "prune_exemptions", "prune_non_importable_audits", "prune_imports"]
        if sorted(fields) != sorted(want):
            raise TranslateError(f"UpdateMode literal in {fn} has fields {sorted(fields)}")
        res.append(fields)
    return res


def coq_mode(name, params, f):
    ps = "".join(f" ({p} : bool)" for p in params)
    return (f"Definition {name}{ps} : update_mode :=\n"
            f"  {{| um_search := {f['search_mode']}; um_prune_exemptions := {f['prune_exemptions']};\n"
            f"     um_prune_audits := {f['prune_non_importable_audits']}; um_prune_imports := {f['prune_imports']} |}}.\n")


CMPOPS = {"==": "eqb", "<=": "leb", "<": "ltb", ">=": "geb", ">": "gtb"}
WIN_VARS = {"entry.user_id": ("e_user", "N"), "publisher.user_id": ("p_user", "N"),
            "*entry.start": ("e_start", "Z"), "*entry.end": ("e_end", "Z"),
            "publisher.when": ("p_when", "Z")}


def tr_window(cond):
    conj = [c.strip() for c in cond.split("&&")]
    out = []
    for c in conj:
        m = re.fullmatch(r"(\*?[a-z_.]+)\s*(==|<=|>=|<|>)\s*(\*?[a-z_.]+)", c)
        if not m or m.group(1) not in WIN_VARS or m.group(3) not in WIN_VARS:
            raise TranslateError(f"unsupported publisher-window conjunct: {c!r}")
        (a, ta), (b, tb) = WIN_VARS[m.group(1)], WIN_VARS[m.group(3)]
        if ta != tb:
            raise TranslateError(f"ill-typed window conjunct {c!r}")
        op = m.group(2)
        if op == ">=":
            a, b, op = b, a, "<="
        elif op == ">":
            a, b, op = b, a, "<"
        out.append(f"{ta}.{CMPOPS[op]} {a} {b}")
    return " && ".join(f"({x})" for x in out)


def window_guards(build_body):
    """the `if entry.user_id == publisher.user_id && ... {` guards of the wildcard
    loop and of the trusted loop inside AuditGraph::build"""
    guards = []
    pos = []
    for m in re.finditer(r"if\s+(entry\.user_id\s*==[^{]*)\{", build_body):
        guards.append(re.sub(r"\s+", " ", m.group(1)).strip())
        pos.append(m.start())
    if len(guards) != 2:
        raise TranslateError(f"expected 2 publisher-window guards in AuditGraph::build, found {len(guards)}")
    # first is inside `for ... in all_wildcard_audits.clone()`, second inside `for entry in trusteds`
    m_w = re.search(r"for\s*\([^)]*\)\s*in\s+all_wildcard_audits\.clone\(\)", build_body)
    m_t = re.search(r"for\s+entry\s+in\s+trusteds", build_body)
    if not m_w or not m_t or not (m_w.start() < pos[0] < m_t.start() < pos[1]):
        raise TranslateError("publisher-window guards are not where expected")
    return guards


def const_str(src, name):
    m = re.search(r"\bconst\s+" + name + r"\s*:\s*&str\s*=\s*\"([^\"]*)\"", src)
    if not m:
        raise TranslateError(f"cannot find const {name}")
    return m.group(1)


ERRORS = []


def tri(positive, negative, what):
    """a boolean fact: True when the code has the recognised positive shape, False only when it has a recognised
    NEGATIVE shape; anything else is 'shape not understood' (the section then falls back to the recorded value)"""
    if positive:
        return True
    if negative:
        return False
    raise TranslateError(f"{what}: neither the known positive nor a known negative shape")

def split_nested_fns(body):
    """-> (body with the nested `fn` items cut out, {name: body of that nested fn}).  A nested item is a definition: its text
    stands where it is declared, its code runs where it is CALLED — position arguments must not look inside it."""
    out, nested, i = [], {}, 0
    for m in re.finditer(r"\bfn\s+(\w+)", body):
        if m.start() < i:
            continue
        ob = body.find("{", m.end())
        semi = body.find(";", m.end())
        if ob < 0 or (0 <= semi < ob):
            continue
        cb = match_brace(body, ob)
        out.append(body[i:m.start()])
        nested[m.group(1)] = body[ob:cb + 1]
        i = cb + 1
    out.append(body[i:])
    return "".join(out), nested


DEFAULTS_PATH = os.path.join(os.path.dirname(os.path.abspath(__file__)), "translate_defaults.json")
try:
    with open(DEFAULTS_PATH) as _f:
        DEFAULTS = json.load(_f)
except Exception:
    DEFAULTS = {}
RECORDED = {}


class section:
    """one independent group of facts.  When the source no longer has a shape this script understands, the section
    falls back to the values recorded from the pinned tree (tools/translate_defaults.json) — the hand-written
    model's own assumptions — says so in Extracted.v and on stderr, and the tie between that part of the model and
    the code is then the correspondence run alone.  Without a recorded value the facts are simply missing and the
    Coq files that use them stop compiling.  A later section that needs a variable of a failed one is treated the
    same way."""

    def __init__(self, L, name):
        self.L, self.name = L, name

    def __enter__(self):
        self.mark = len(self.L)
        return self

    def __exit__(self, et, ev, tb):
        if et is None:
            RECORDED[self.name] = self.L[self.mark:]
            return False
        if issubclass(et, (TranslateError, NameError)):
            del self.L[self.mark:]
            reason = str(ev).replace("*)", "* )")
            if self.name in DEFAULTS:
                self.L.append(f"(* NOT RE-READ FROM THE SOURCE this run — {self.name}: {reason}")
                self.L.append("   the recorded values of the pinned tree are used; this part is tied to the code by the correspondence run only *)")
                self.L.extend(DEFAULTS[self.name])
                ERRORS.append(f"fallback to recorded values — {self.name}: {ev}")
            else:
                self.L.append(f"(* NOT TRANSLATED — {self.name}: {reason} *)")
                self.L.append("")
                ERRORS.append(f"missing — {self.name}: {ev}")
            return True
        return False


def main(out_path):
    resolver = strip_comments(read("src/resolver.rs"))
    mainrs = strip_comments(read("src/main.rs"))
    criteria = strip_comments(read("src/criteria.rs"))
    fmt = strip_comments(read("src/format.rs"))
    storage = strip_comments(read("src/storage.rs"))

    L = []
    L.append("(* GENERATED by tools/translate.py from /repo/src — do not edit. *)")
    L.append("From Coq Require Import List NArith ZArith Bool.")
    L.append("Import ListNotations.")
    L.append("Local Open Scope N_scope.\n")

    with section(L, "CaveatLevel order"):
        pass
        sfp = fn_body(resolver, "search_for_path")
        cav = enum_variants(sfp, "CaveatLevel")
        expected = {"None", "NonImportableAudit", "PreferredExemption", "PreferredUnpublished",
                    "FreshPublisher", "FreshImport", "Exemption", "Unpublished", "FreshExemption"}
        if set(cav) != expected:
            raise TranslateError(f"CaveatLevel variants changed: {cav}")
        L.append("(* enum CaveatLevel, in declaration (= derived Ord) order *)")
        for i, v in enumerate(cav):
            L.append(f"Definition CV_{v} : N := {i}.")
        L.append("")

    with section(L, "heap key tuple order"):
        pass
        m = re.search(r"Reverse\(\(", sfp)
        if not m:
            raise TranslateError("cannot find Node::key tuple")
        op = m.end() - 1
        cp = match_brace(sfp, op, "(", ")")
        key = [re.sub(r"\s+", "", x) for x in split_top(sfp[op + 1:cp]) if x.strip()]
        want_key = ["self.caveat_level", "self.version", "self.exemption_origin_version()",
                    "self.path.len()", "self.path.last()"]
        if key != want_key:
            raise TranslateError(f"heap key changed: {key}")
        L.append("(* Node::key is Reverse((caveat_level, version, exemption_origin_version, path.len(), path.last())) *)")
        L.append("Definition HEAP_KEY_PRIMARY_IS_CAVEAT : bool := true.\n")

    with section(L, "DeltaEdgeOrigin / RequiredEntry orders"):
        pass
        deo = enum_variants(resolver, "DeltaEdgeOrigin")
        want = ["StoredLocalAudit", "ImportedAudit", "WildcardAudit", "Trusted", "Exemption",
                "Unpublished", "FreshExemption"]
        if sorted(deo) != sorted(want):
            raise TranslateError(f"DeltaEdgeOrigin variants changed: {deo}")
        L.append("(* enum DeltaEdgeOrigin declaration order (derived Ord) *)")
        for i, v in enumerate(deo):
            L.append(f"Definition DEO_{v} : N := {i}.")
        L.append("")
        req = enum_variants(resolver, "RequiredEntry")
        want = ["LocalAudit", "Audit", "WildcardAudit", "Publisher", "Exemption", "Unpublished", "FreshExemption"]
        if sorted(req) != sorted(want):
            raise TranslateError(f"RequiredEntry variants changed: {req}")
        L.append("(* enum RequiredEntry declaration order (derived Ord) *)")
        for i, v in enumerate(req):
            L.append(f"Definition RE_{v} : N := {i}.")
        L.append(f"Definition RE_FreshExemption_is_last : bool := {'true' if req[-1] == 'FreshExemption' else 'false'}.\n")

    with section(L, "search modes + UpdateMode literals"):
        pass
        sm = enum_variants(resolver, "SearchMode")
        if sm != ["PreferExemptions", "PreferFreshImports", "RegenerateExemptions"]:
            raise TranslateError(f"SearchMode variants changed: {sm}")
        L.append("Inductive search_mode := PreferExemptions | PreferFreshImports | RegenerateExemptions.")
        L.append("Record update_mode := { um_search : search_mode; um_prune_exemptions : bool;")
        L.append("                        um_prune_audits : bool; um_prune_imports : bool }.\n")

        def one(fn, name, params=()):
            ms = update_modes(fn_body(mainrs, fn), fn)
            if len(ms) != 1:
                raise TranslateError(f"expected one UpdateMode literal in {fn}, found {len(ms)}")
            L.append(f"(* {fn} *)")
            L.append(coq_mode(name, params, ms[0]))

        one("cmd_init", "mode_init")
        one("do_cmd_certify", "mode_certify", ("is_target",))
        one("cmd_import", "mode_import")
        one("apply_cmd_trust", "mode_trust", ("is_target",))
        one("cmd_regenerate_imports", "mode_regenerate_imports")
        one("cmd_regenerate_unpublished", "mode_regenerate_unpublished")
        one("cmd_regenerate_exemptions", "mode_regenerate_exemptions")
        one("cmd_prune", "mode_prune", ("no_imports", "no_exemptions", "no_audits"))
        ms = update_modes(fn_body(mainrs, "cmd_check"), "cmd_check")
        if len(ms) != 2:
            raise TranslateError(f"expected two UpdateMode literals in cmd_check, found {len(ms)}")
        L.append("(* cmd_check: the advisory get_store_updates, then the real update_store *)")
        L.append(coq_mode("mode_check_advice", (), ms[0]))
        L.append(coq_mode("mode_check_update", (), ms[1]))
        # cmd_check commits only when the report has no errors
        chk = fn_body(mainrs, "cmd_check")
        if not re.search(r"if\s+report\.has_errors\(\)\s*\{\s*panic_any\(ExitPanic\(-1\)\);\s*\}\s*else\s*\{", chk):
            raise TranslateError("cmd_check no longer has the `if report.has_errors() { panic_any(ExitPanic(-1)) } else {` shape")
        L.append("Definition CHECK_COMMITS_ONLY_ON_SUCCESS : bool := true.\n")

    with section(L, "criteria constants"):
        pass
        if not re.search(r"const\s+MAX_CRITERIA\s*:\s*usize\s*=\s*u64::BITS\s+as\s+usize", criteria):
            raise TranslateError("MAX_CRITERIA is no longer u64::BITS")
        if not re.search(r"pub\s+struct\s+CriteriaSet\(u64\)", criteria):
            raise TranslateError("CriteriaSet is no longer a u64")
        L.append("Definition MAX_CRITERIA : nat := 64.")
        m1 = re.search(r"const\s+SAFE_TO_RUN_IDX\s*:\s*usize\s*=\s*(\d+)", criteria)
        m2 = re.search(r"const\s+SAFE_TO_DEPLOY_IDX\s*:\s*usize\s*=\s*(\d+)", criteria)
        if not m1 or not m2:
            raise TranslateError("builtin criteria indices not found")
        L.append(f"Definition SAFE_TO_RUN_IDX : N := {m1.group(1)}.")
        L.append(f"Definition SAFE_TO_DEPLOY_IDX : N := {m2.group(1)}.")
        if not re.search(r"direct_implies\[SAFE_TO_DEPLOY_IDX\]\.set_criteria\(SAFE_TO_RUN_IDX\)", criteria):
            raise TranslateError("safe-to-deploy => safe-to-run pre-population not found")
        idx = {"SAFE_TO_RUN": "SAFE_TO_RUN_IDX", "SAFE_TO_DEPLOY": "SAFE_TO_DEPLOY_IDX"}
        for c in ("DEFAULT_POLICY_CRITERIA", "DEFAULT_POLICY_DEV_CRITERIA"):
            m = re.search(r"pub\s+static\s+" + c + r"\s*:\s*CriteriaStr\s*=\s*(SAFE_TO_RUN|SAFE_TO_DEPLOY)\s*;", fmt)
            if not m:
                raise TranslateError(f"{c} not found")
            L.append(f"Definition {c} : N := {idx[m.group(1)]}.")
        L.append("")

    with section(L, "publisher window guards"):
        pass
        build = fn_body(resolver, "build")
        g = window_guards(build)
        L.append("(* guards of wildcard-audit and trusted edge creation in AuditGraph::build *)")
        L.append("Local Open Scope bool_scope.")
        for nm, cond in zip(("wildcard_guard", "trusted_guard"), g):
            L.append(f"(* {cond} *)")
            L.append(f"Definition {nm} (e_user p_user : N) (e_start e_end p_when : Z) : bool :=\n  {tr_window(cond)}.")
        L.append("")

    with section(L, "exclude handling in fetch_single_imported_audit"):
        pass
        fsi = fn_body(storage, "fetch_single_imported_audit")
        if not re.search(r"for\s+excluded\s+in\s+exclude\s*\{[^}]*audit_file\.audits\.remove\(excluded\)", fsi):
            raise TranslateError("exclude no longer removes the excluded crates' audits in fetch_single_imported_audit")
        exl = re.search(r"for\s+excluded\s+in\s+exclude\s*\{([^}]*)\}", fsi)
        exl_body = exl.group(1) if exl else ""
        keeps = not tri(bool(re.fullmatch(r"\s*audit_file\.audits\.remove\(excluded\);\s*audit_file\.wildcard_audits\.remove\(excluded\);\s*", exl_body)),
                        bool(exl) and "wildcard_audits" not in exl_body,
                        "exclude loop of fetch_single_imported_audit")
        L.append("(* does `exclude` leave the excluded crates' wildcard audits in the import? *)")
        L.append(f"Definition EXCLUDE_KEEPS_WILDCARDS : bool := {'true' if keeps else 'false'}.")
        L.append("")

    with section(L, "compute_suggest: does de-duplication merge the criteria of the dropped item?"):
        pass
        cs = fn_body(resolver, "compute_suggest")
        m = re.search(r"suggestions\.dedup_by\(", cs)
        if not m:
            raise TranslateError("compute_suggest no longer de-duplicates suggestions with dedup_by")
        op = m.end() - 1
        cp = match_brace(cs, op, "(", ")")
        merges = tri(bool(re.search(r"b\.suggested_criteria\.unioned_with\(\s*&a\.suggested_criteria\s*\)", cs[op:cp])),
                     "suggested_criteria" not in cs[op:cp],
                     "de-duplication closure of compute_suggest")
        L.append(f"Definition SUGGEST_DEDUP_MERGES_CRITERIA : bool := {'true' if merges else 'false'}.")
        L.append("")

    with section(L, "which criteria reference sites Store::validate checks (and under which guard)"):
        pass
        val = fn_body(storage, "validate")
        loops = []
        for m in re.finditer(r"\bfor\s+(.+?)\s+in\s+([^{]+?)\s*\{", val):
            ob = m.end() - 1
            loops.append((m.start(), match_brace(val, ob), re.sub(r"\s+", "", m.group(2))))
        guards = []
        for m in re.finditer(r"\bif\s+check_file_formatting\s*\{", val):
            guards.append((m.start(), match_brace(val, m.end() - 1)))
        SITE_BY_ITER = {
            "&self.config.exemptions": "SExemption", "&self.audits.audits": "SAudit",
            "&self.audits.wildcard_audits": "SWildcard", "&self.audits.trusted": "STrusted",
            "&self.audits.criteria": "SImplies", "&policy.dependency_criteria": "SPolicyDep",
            "&import.criteria_map": "SCriteriaMap", "audits_file.audits.values().flatten()": "SLockAudit",
            "audits_file.wildcard_audits.values().flatten()": "SLockWildcard",
        }
        sites = {}
        for m in re.finditer(r"\bcheck_criteria\(", val):
            if val[max(0, m.start() - 3):m.start()] == "fn ":
                continue
            op = m.end() - 1
            cp = match_brace(val, op, "(", ")")
            args_ = [re.sub(r"\s+", "", a) for a in split_top(val[op + 1:cp]) if a.strip()]
            if len(args_) != 4:
                raise TranslateError(f"unexpected check_criteria call shape: {args_}")
            arg = args_[3]
            enclosing = sorted([l for l in loops if l[0] < m.start() < l[1]], key=lambda l: l[0])
            site = None
            if arg.startswith("policy.criteria"):
                site = "SPolicy"
            elif arg.startswith("policy.dev_criteria"):
                site = "SPolicyDev"
            else:
                for l in reversed(enclosing):
                    if l[2] in SITE_BY_ITER:
                        site = SITE_BY_ITER[l[2]]
                        break
            if site is None:
                raise TranslateError(f"cannot classify check_criteria call with argument {arg!r} inside loops {[l[2] for l in enclosing]}")
            guarded = any(g[0] < m.start() < g[1] for g in guards)
            sites[site] = "locked" if guarded and sites.get(site) != "true" else "true"
        ALL_SITES = ["SExemption", "SPolicy", "SPolicyDev", "SPolicyDep", "SImplies", "SAudit", "SWildcard", "STrusted",
                     "SCriteriaMap", "SLockAudit", "SLockWildcard"]
        L.append("(* criteria reference sites and whether Store::validate(.., check_file_formatting = locked) checks them *)")
        L.append("Inductive site := " + " | ".join(ALL_SITES) + ".")
        L.append("Definition validate_checks (locked : bool) (s : site) : bool :=")
        L.append("  match s with")
        for st in ALL_SITES:
            L.append(f"  | {st} => {sites.get(st, 'false')}")
        L.append("  end.")
        L.append("")

    with section(L, "is the criteria table itself checked before a CriteriaMapper is built from it?"):
        pass
        criteria_rs = strip_comments(read("src/criteria.rs"))
        has_fn = bool(re.search(r"\bfn\s+check_criteria_table\b", criteria_rs))
        called_v = "check_criteria_table" in val
        fsi = fn_body(storage, "fetch_single_imported_audit")
        called_p = "check_criteria_table" in fsi
        table_fn_ok = False
        if has_fn:
            cb = fn_body(criteria_rs, "check_criteria_table")
            table_fn_ok = bool(re.search(r"for\s+builtin\s+in\s+\[\s*SAFE_TO_RUN\s*,\s*SAFE_TO_DEPLOY\s*\]", cb)) and \
                bool(re.search(r"criteria\.contains_key\(\s*builtin\s*\)", cb)) and \
                bool(re.search(r"criteria\.len\(\)\s*\+\s*2\s*>\s*MAX_CRITERIA", cb)) and \
                bool(re.search(r"Some\(\s*Mark::InProgress\s*\)\s*=>\s*\{?\s*return\s+Err", cb))
        vchecks = tri(table_fn_ok and bool(re.search(
            r"if\s+let\s+Err\(\s*message\s*\)\s*=\s*crate::criteria::check_criteria_table\(\s*&self\.audits\.criteria\s*\)\s*\{\s*"
            r"errors\.push\(\s*StoreValidateError::InvalidCriteriaTable", val)),
            not has_fn or not called_v, "criteria-table check in Store::validate")
        i_chk = fsi.find("check_criteria_table(&audit_file.criteria)")
        i_new = fsi.find("CriteriaMapper::new(&audit_file.criteria)")
        pchecks = tri(table_fn_ok and 0 <= i_chk < i_new and bool(re.search(r"check_criteria_table\(&audit_file\.criteria\)\s*\.map_err\(", fsi))
                      and bool(re.search(r"\}\s*\)\s*\?\s*;\s*let\s+foreign_criteria_mapper", fsi)),
                      not has_fn or not called_p, "criteria-table check in fetch_single_imported_audit")
        L.append("(* Store::validate refuses an unusable criteria table (built-in redefined, too many criteria, implication cycle);")
        L.append("   fetch_single_imported_audit does the same for a peer's table before building its mapper *)")
        L.append(f"Definition VALIDATE_CHECKS_TABLE : bool := {'true' if vchecks else 'false'}.")
        L.append(f"Definition PEER_TABLE_CHECKED : bool := {'true' if pchecks else 'false'}.")
        L.append("")

    with section(L, "unpack_package: shape facts"):
        pass
        up = fn_body(storage, "unpack_package")
        i_loop = up.find("for entry in tar.entries()")
        i_lock = up.find("create_unpack_lock(unpack_dir)")
        i_rm = up.find("fs::remove_dir_all(unpack_dir)")
        i_prefix = up.find("entry_path.starts_with(prefix)")
        i_unpack = up.find(".unpack_in(parent)")
        if min(i_loop, i_lock, i_rm, i_prefix, i_unpack) < 0:
            raise TranslateError("unpack_package no longer has the expected steps (remove stale dir, entry loop, prefix check, unpack_in, marker)")
        if not (i_rm < i_loop < i_prefix < i_unpack < i_lock):
            raise TranslateError("unpack_package: the order stale-dir removal < entry loop (prefix check < unpack_in) < marker creation changed")
        loop_ob = up.find("{", i_loop)
        loop_cb = match_brace(up, loop_ob)
        if not (loop_cb < i_lock):
            raise TranslateError("unpack_package: the completion marker is no longer written after the entry loop")
        skips = tri(bool(re.search(r"file_name\(\)\s*\.map_or\(\s*false\s*,\s*\|\w+\|\s*\w+\s*==\s*CARGO_OK_FILE\s*\)\s*\{\s*continue;", up[loop_ob:i_unpack])),
                    "CARGO_OK_FILE" not in up[loop_ob:i_unpack], "marker-entry skip in unpack_package")
        L.append("(* unpack_package: stale directory removed first, prefix check before unpack_in, marker after the loop *)")
        L.append("Definition UNPACK_MARKER_AFTER_LOOP : bool := true.")
        L.append(f"Definition UNPACK_SKIPS_MARKER_ENTRIES : bool := {'true' if skips else 'false'}.")
        links = tri(bool(re.search(r"entry_type\.is_symlink\(\)\s*\|\|\s*entry_type\.is_hard_link\(\)\s*\{\s*continue;", up[loop_ob:i_unpack])),
                    "is_symlink" not in up[loop_ob:i_unpack] and "is_hard_link" not in up[loop_ob:i_unpack], "link-entry skip in unpack_package")
        L.append(f"Definition UNPACK_SKIPS_LINK_ENTRIES : bool := {'true' if links else 'false'}.")
        fio = fn_body(storage, "fetch_is_ok")
        if not re.search(r"read_to_string\(fetch\.join\(CARGO_OK_FILE\)\)", fio) or "ok == CARGO_OK_BODY" not in fio:
            raise TranslateError("fetch_is_ok no longer compares the marker file with CARGO_OK_BODY")
        L.append("")

    with section(L, "store / cache locking: the order of lock, reads, writes and release"):
        pass
        flock = strip_comments(read("src/flock.rs"))
        sl = item_body(storage, r"\bimpl\s+StoreLock\s*\{", "impl StoreLock")
        new_body = fn_body(sl, "new")
        m_open = re.search(r"store\s*\.\s*(open_rw|open_ro)\s*\(\s*CONFIG_TOML", new_body)
        if not m_open:
            raise TranslateError("StoreLock::new no longer opens CONFIG_TOML through Filesystem::open_rw/open_ro")

        def lock_state(fn):
            b = fn_body(flock, fn)
            m = re.search(r"State::(Exclusive|Shared|Unlocked)", b)
            if not m or not re.search(r"self\s*\.\s*open\s*\(", b):
                raise TranslateError(f"flock.rs {fn} no longer delegates to Filesystem::open with a lock State")
            return m.group(1)
        open_body = fn_body(flock, "open")
        arm = re.search(r"State::Exclusive\s*=>\s*\{", open_body)
        if not arm:
            raise TranslateError("Filesystem::open has no State::Exclusive arm")
        arm_body = open_body[arm.end() - 1:match_brace(open_body, arm.end() - 1)]
        excl_arm = tri(bool(re.search(r"acquire\s*\(", arm_body)) and "lock_exclusive(&f)" in arm_body,
                       "lock_shared" in arm_body or "acquire" not in arm_body, "State::Exclusive arm of Filesystem::open")
        sysmod = item_body(flock, r"#\[cfg\(unix\)\]\s*mod\s+sys\s*\{", "unix mod sys")
        lx, tlx = fn_body(sysmod, "lock_exclusive"), fn_body(sysmod, "try_lock_exclusive")
        excl_sys = tri(bool(re.search(r"flock\s*\(\s*file\s*,\s*libc::LOCK_EX\s*\)", lx)) and
                       bool(re.search(r"flock\s*\(\s*file\s*,\s*libc::LOCK_EX\s*\|\s*libc::LOCK_NB\s*\)", tlx)),
                       "LOCK_SH" in lx or "LOCK_SH" in tlx or "LOCK_EX" not in lx or "LOCK_EX" not in tlx,
                       "flock flags of lock_exclusive / try_lock_exclusive")
        # acquire(): a failed lock attempt must end in the blocking call (or an error), never in Ok without the lock
        acq = fn_body(flock, "acquire")
        blocks = tri(bool(re.search(r"lock_block\(\)\?;\s*return\s+Ok\(\(\)\);", acq)) and
                     bool(re.search(r"if\s*!\s*error_contended\(&e\)\s*\{\s*return\s+Err", acq)),
                     "lock_block()" not in acq, "blocking fallback of flock::acquire")
        drop_impl = item_body(flock, r"\bimpl\s+Drop\s+for\s+FileLock\s*\{", "impl Drop for FileLock")
        drop_unlocks = tri("unlock(&f)" in drop_impl, "unlock" not in drop_impl, "Drop for FileLock")

        def exclusive(fn):
            return lock_state(fn) == "Exclusive" and excl_arm and excl_sys and blocks
        store_excl = exclusive(m_open.group(1))

        FILE_IDX = {"config": 0, "audits": 1, "imports": 2}
        acq_off = fn_body(storage, "acquire_offline")
        ev = []
        m = re.search(r"StoreLock::new\(", acq_off)
        if not m:
            raise TranslateError("Store::acquire_offline no longer takes the StoreLock")
        ev.append((m.start(), "ALock"))
        for nm, ix in FILE_IDX.items():
            ms = list(re.finditer(r"lock\.read_%s\(\)" % nm, acq_off))
            if len(ms) != 1:
                raise TranslateError(f"Store::acquire_offline: expected exactly one lock.read_{nm}()")
            ev.append((ms[0].start(), f"ARead {ix}"))
        for mm in re.finditer(r"\bdrop\(\s*lock\s*\)", acq_off):
            ev.append((mm.start(), "AUnlock"))
        m = re.search(r"lock:\s*Some\(lock\)", acq_off)
        if not m:
            raise TranslateError("Store::acquire_offline no longer keeps the lock in the returned Store")
        acquire_acts = [a for _, a in sorted(ev)]

        com = fn_body(storage, "commit")
        m = re.search(r"if\s+let\s+Some\(lock\)\s*=\s*self\.lock\s*\{", com)
        if not m:
            raise TranslateError("Store::commit no longer takes the lock out of the Store for the duration of the writes")
        blk_end = match_brace(com, m.end() - 1)
        blk = com[m.end():blk_end]
        ev = []
        handles = {}
        for nm, ix in FILE_IDX.items():
            ms = list(re.finditer(r"let\s+mut\s+(\w+)\s*=\s*lock\.write_%s\(\)" % nm, blk))
            if len(ms) != 1:
                raise TranslateError(f"Store::commit: expected exactly one lock.write_{nm}()")
            handles[ms[0].group(1)] = ix
        for h, ix in handles.items():
            ws = list(re.finditer(r"\b%s\.write_all\(" % h, blk))
            if not ws:
                raise TranslateError(f"Store::commit: handle {h} is never written")
            ev.append((ws[-1].start(), f"AWrite {ix}"))
        for mm in re.finditer(r"\bdrop\(\s*lock\s*\)", blk):
            ev.append((mm.start(), "AUnlock"))
        if not any(a == "AUnlock" for _, a in ev):
            ev.append((len(blk), "AUnlock"))            # `lock` goes out of scope at the end of the block
        for nm in FILE_IDX:
            if re.search(r"write_%s\(\)" % nm, com[:m.start()] + com[blk_end:]):
                raise TranslateError("Store::commit writes a store file outside the block that holds the lock")
        commit_acts = [a for _, a in sorted(ev)]

        cache_acq = fn_body(item_body(storage, r"\bimpl\s+Cache\s*\{", "impl Cache"), "acquire")
        cache_acq, acq_nested = split_nested_fns(cache_acq)
        m = re.search(r"\.\s*(open_rw|open_ro)\s*\(\s*CACHE_VET_LOCK", cache_acq)
        if not m:
            raise TranslateError("Cache::acquire no longer locks CACHE_VET_LOCK")
        i_lock = m.start()
        io_tokens = ["File::open(", "load_toml(", "load_json("]
        # a nested helper that reads counts where it is CALLED
        io_tokens += [n_ + "(" for n_, b_ in acq_nested.items() if any(t_ in b_ for t_ in ["File::open(", "load_toml(", "load_json("])]
        first_io = min([x for x in (cache_acq.find(t_) for t_ in io_tokens) if x >= 0] or [-1])
        if first_io < 0:
            raise TranslateError("Cache::acquire: no read of a persisted cache file found")
        cache_lock_first = tri(0 <= i_lock < first_io and bool(re.search(r"_lock:\s*Some\(lock\)", cache_acq)),
                               0 <= first_io < i_lock or "_lock: None" in cache_acq.replace("  ", " "), "lock-before-read order of Cache::acquire")
        cache_excl = exclusive(m.group(1)) and cache_lock_first
        cache_struct = item_body(storage, r"\bpub\s+struct\s+Cache\s*\{", "struct Cache")
        if not re.search(r"_lock:\s*Option<FileLock>", cache_struct):
            raise TranslateError("struct Cache no longer owns its FileLock")

        L.append("(* store locking: Store::acquire_offline / Store::commit as sequences of lock, read, write and")
        L.append("   release actions (file 0 = config.toml, 1 = audits.toml, 2 = imports.lock), in source order;")
        L.append("   AWrite f stands at the last write_all of file f, AUnlock where the StoreLock value dies *)")
        L.append("Inductive act := ALock | ARead (f : nat) | AWrite (f : nat) | AUnlock.")
        L.append("Definition STORE_ACQUIRE_ACTS : list act := [" + "; ".join(acquire_acts) + "].")
        L.append("Definition STORE_COMMIT_ACTS : list act := [" + "; ".join(commit_acts) + "].")
        L.append(f"Definition STORE_LOCK_EXCLUSIVE : bool := {'true' if store_excl else 'false'}.")
        L.append(f"Definition CACHE_LOCK_EXCLUSIVE : bool := {'true' if cache_excl else 'false'}.")
        # the cache's persisted files are written back in `impl Drop for Cache`, whose body runs BEFORE the fields of Cache
        # (among them `_lock`) are dropped; written back from the Drop of a FIELD (e.g. the state) they would be written after
        # the flock is gone
        wb = ("store_diff_cache", "store_command_history", "store_publisher_cache")
        try:
            drop_cache = item_body(storage, r"\bimpl\s+Drop\s+for\s+Cache\s*\{", "impl Drop for Cache")
        except TranslateError:
            drop_cache = ""
        other_drops = [m_.group(1) for m_ in re.finditer(r"\bimpl\s+Drop\s+for\s+(\w+)\s*\{", storage) if m_.group(1) != "Cache"]
        elsewhere = False
        for nm_ in other_drops:
            b_ = item_body(storage, r"\bimpl\s+Drop\s+for\s+%s\s*\{" % nm_, "impl Drop for " + nm_)
            if any(w_ in b_ for w_ in wb):
                elsewhere = True
        wb_before = tri(all(w_ in drop_cache for w_ in wb) and not elsewhere, elsewhere and not any(w_ in drop_cache for w_ in wb),
                        "where the cache's persisted files are written back")
        L.append(f"Definition FILELOCK_DROP_UNLOCKS : bool := {'true' if drop_unlocks else 'false'}.")
        L.append(f"Definition CACHE_WRITEBACK_BEFORE_UNLOCK : bool := {'true' if wb_before else 'false'}.")
        L.append("")

    with section(L, "the caveat level of an edge (search_for_path): translated arm by arm"):
        pass
        sfp = fn_body(resolver, "search_for_path")
        m = re.search(r"let\s+edge_caveat_level\s*=\s*match\s*&edge\.origin\s*\{", sfp)
        if not m:
            raise TranslateError("search_for_path: `let edge_caveat_level = match &edge.origin {` not found")
        ob = m.end() - 1
        body = sfp[ob + 1:match_brace(sfp, ob)]

        def split_arms(b):
            """top-level arms `pattern [if guard] => expr` of a match body"""
            arms, depth, cur, i = [], 0, "", 0
            while i < len(b):
                ch = b[i]
                if ch in "{([":
                    depth += 1
                elif ch in "})]":
                    depth -= 1
                    if depth == 0 and ch == "}" and "=>" in cur:
                        cur += ch
                        # a block arm ends at its closing brace (an optional comma follows)
                        j = i + 1
                        while j < len(b) and b[j] in " \n\t":
                            j += 1
                        if j < len(b) and b[j] == ",":
                            j += 1
                        arms.append(cur.strip())
                        cur = ""
                        i = j
                        continue
                elif ch == "," and depth == 0:
                    if cur.strip():
                        arms.append(cur.strip())
                    cur = ""
                    i += 1
                    continue
                cur += ch
                i += 1
            if cur.strip():
                arms.append(cur.strip())
            out = []
            for a in arms:
                pat, _, expr = a.partition("=>")
                pat, _, guard = pat.partition(" if ")
                expr = expr.strip()
                if expr.startswith("{") and expr.endswith("}") and not expr.startswith("match"):
                    expr = expr[1:-1].strip()
                out.append((pat.strip(), guard.strip(), expr))
            return out

        def level(e):
            mm = re.fullmatch(r"CaveatLevel::(\w+)", e.strip())
            if mm:
                return "CV_" + mm.group(1)
            if e.strip() == "unreachable!()":
                return "CV_FreshExemption"      # never a stored edge; the model's synthetic edge carries this level
            raise TranslateError(f"edge_caveat_level: cannot translate result {e!r}")

        def guard_cond(g):
            g = g.strip()
            if not g:
                return None
            if g == "!importable":
                return "negb importable"
            mm = re.fullmatch(r"mode\s*==\s*SearchMode::(\w+)", g)
            if mm:
                return f"smode_eqb m {mm.group(1)}"
            if g == "!edge.freshness.is_fresh()":
                return "negb (efresh_is_fresh f)"
            if g == "edge.freshness.is_fresh()":
                return "efresh_is_fresh f"
            raise TranslateError(f"edge_caveat_level: cannot translate guard {g!r}")

        def conj(cs):
            cs = [c for c in cs if c]
            return " && ".join(f"({c})" for c in cs) if cs else "true"

        def tr_inner(expr):
            mm = re.match(r"match\s+(mode|edge\.freshness)\s*\{", expr)
            if not mm:
                return level(expr)
            ob2 = mm.end() - 1
            arms2 = split_arms(expr[ob2 + 1:match_brace(expr, ob2)])
            txt = None
            for pat, guard, e in reversed(arms2):
                if mm.group(1) == "mode":
                    pm = re.fullmatch(r"SearchMode::(\w+)", pat)
                    pc = f"smode_eqb m {pm.group(1)}" if pm else (None if pat == "_" else "?")
                else:
                    pm = re.fullmatch(r"DeltaEdgeFreshness::(\w+)", pat)
                    pc = f"efresh_eqb f EF_{pm.group(1)}" if pm else (None if pat == "_" else "?")
                if pc == "?":
                    raise TranslateError(f"edge_caveat_level: cannot translate pattern {pat!r}")
                c = conj([pc, guard_cond(guard)])
                txt = tr_inner(e) if (c == "true" and txt is None) else f"if {c} then {tr_inner(e)} else {txt if txt is not None else 'CV_None'}"
            return txt

        ORIGIN_KIND = {"StoredLocalAudit": "OK_LocalAudit", "ImportedAudit": "OK_Imported", "WildcardAudit": "OK_Wildcard",
                       "Trusted": "OK_Trusted", "Exemption": "OK_Exemption", "Unpublished": "OK_Unpublished",
                       "FreshExemption": "OK_FreshExemption"}
        txt = None
        for pat, guard, e in reversed(split_arms(body)):
            pm = re.match(r"DeltaEdgeOrigin::(\w+)", pat)
            if pm:
                if pm.group(1) not in ORIGIN_KIND:
                    raise TranslateError(f"edge_caveat_level: unknown origin {pm.group(1)}")
                pc = f"okind_eqb k {ORIGIN_KIND[pm.group(1)]}"
            elif pat == "_":
                pc = None
            else:
                raise TranslateError(f"edge_caveat_level: cannot translate pattern {pat!r}")
            c = conj([pc, guard_cond(guard)])
            txt = tr_inner(e) if (c == "true" and txt is None) else f"if {c} then {tr_inner(e)} else ({txt if txt is not None else 'CV_None'})"
        L.append("(* the caveat level an edge adds (resolver.rs search_for_path), translated arm by arm, in arm order *)")
        L.append("Inductive okind := OK_LocalAudit | OK_Imported | OK_Wildcard | OK_Trusted | OK_Exemption | OK_Unpublished | OK_FreshExemption.")
        L.append("Inductive efresh := EF_Stale | EF_FreshPublisher | EF_Fresh.")
        L.append("Definition okind_eqb (a b : okind) : bool := match a, b with OK_LocalAudit, OK_LocalAudit | OK_Imported, OK_Imported | OK_Wildcard, OK_Wildcard | OK_Trusted, OK_Trusted | OK_Exemption, OK_Exemption | OK_Unpublished, OK_Unpublished | OK_FreshExemption, OK_FreshExemption => true | _, _ => false end.")
        L.append("Definition efresh_eqb (a b : efresh) : bool := match a, b with EF_Stale, EF_Stale | EF_FreshPublisher, EF_FreshPublisher | EF_Fresh, EF_Fresh => true | _, _ => false end.")
        L.append("Definition efresh_is_fresh (f : efresh) : bool := match f with EF_Stale => false | _ => true end.")
        L.append("Definition smode_eqb (a b : search_mode) : bool := match a, b with PreferExemptions, PreferExemptions | PreferFreshImports, PreferFreshImports | RegenerateExemptions, RegenerateExemptions => true | _, _ => false end.")
        L.append("Definition edge_caveat_src (m : search_mode) (k : okind) (importable : bool) (f : efresh) : N :=")
        L.append("  " + txt + ".")
        L.append("")

    with section(L, "which edges a search may follow (the criterion filter of search_for_path)"):
        pass
        m = re.search(r"let\s+allow_any_criteria\s*=\s*mode\s*==\s*SearchMode::(\w+)\s*&&\s*matches!\(\s*edge\.origin\s*,\s*DeltaEdgeOrigin::(\w+)\s*\{\s*\.\.\s*\}\s*\)\s*;", sfp)
        if not m or m.group(2) not in ORIGIN_KIND:
            raise TranslateError("search_for_path: `let allow_any_criteria = mode == .. && matches!(edge.origin, ..)` not found")
        if not re.search(r"if\s*!\s*allow_any_criteria\s*&&\s*!\s*edge\.criteria\.has_criteria\(\s*criteria_idx\s*\)\s*\{[^}]*continue;", sfp):
            raise TranslateError("search_for_path: the edge filter `if !allow_any_criteria && !edge.criteria.has_criteria(criteria_idx) { continue; }` changed")
        if not re.search(r"if\s+visited\.contains\(\s*&edge\.version\s*\)\s*\{[^}]*continue;", sfp):
            raise TranslateError("search_for_path: an edge to an already visited version must be skipped with `continue`")
        L.append("(* an edge is followed when it carries the criterion, or (regenerating exemptions) when it is an exemption *)")
        L.append(f"Definition usable_src (m : search_mode) (k : okind) (has_criterion : bool) : bool :=")
        L.append(f"  (smode_eqb m {m.group(1)} && okind_eqb k {ORIGIN_KIND[m.group(2)]}) || has_criterion.")
        L.append("")

    with section(L, "which RequiredEntry kinds each path origin records (resolve_package_required_entries)"):
        pass
        rre = fn_body(resolver, "resolve_package_required_entries")
        m = re.search(r"for\s+origin\s+in\s+path\s*\{\s*match\s+origin\s*\{", rre)
        if not m:
            raise TranslateError("resolve_package_required_entries: `for origin in path { match origin {` not found")
        ob = m.end() - 1
        mbody = rre[ob + 1:match_brace(rre, ob)]
        REQ_KIND = {"LocalAudit": "RK_LocalAudit", "Audit": "RK_Audit", "WildcardAudit": "RK_Wildcard", "Publisher": "RK_Publisher",
                    "Exemption": "RK_Exemption", "Unpublished": "RK_Unpublished", "FreshExemption": "RK_FreshExemption"}
        rows = {}
        pos = 0
        for am in re.finditer(r"DeltaEdgeOrigin::(\w+)\s*\{[^}]*\}\s*=>\s*\{", mbody):
            b0 = am.end() - 1
            blk = mbody[b0 + 1:match_brace(mbody, b0)]
            cond_spans = []
            for cm in re.finditer(r"if\s+let\s+Some\(\s*import_index\s*\)\s*=\s*import_index\s*\{", blk):
                c0 = cm.end() - 1
                cond_spans.append((c0, match_brace(blk, c0)))
            ents = []
            for em in re.finditer(r"add_entry\(\s*RequiredEntry::(\w+)", blk):
                if em.group(1) not in REQ_KIND:
                    raise TranslateError(f"unknown RequiredEntry::{em.group(1)}")
                conditional = any(a <= em.start() <= b for a, b in cond_spans)
                ents.append(f"({REQ_KIND[em.group(1)]}, {'true' if conditional else 'false'})")
            if am.group(1) not in ORIGIN_KIND:
                raise TranslateError(f"unknown DeltaEdgeOrigin::{am.group(1)} in resolve_package_required_entries")
            rows[ORIGIN_KIND[am.group(1)]] = ents
        missing = [k for k in ORIGIN_KIND.values() if k not in rows]
        if missing:
            raise TranslateError(f"resolve_package_required_entries: no arm for {missing}")
        L.append("(* the RequiredEntry kinds recorded for each origin on a chosen path; the flag says `only when the wildcard")
        L.append("   audit is an imported one` (if let Some(import_index)) *)")
        L.append("Inductive rkind := RK_LocalAudit | RK_Audit | RK_Wildcard | RK_Publisher | RK_Exemption | RK_Unpublished | RK_FreshExemption.")
        L.append("Definition required_kinds_src (k : okind) : list (rkind * bool) :=")
        L.append("  match k with")
        for k in ORIGIN_KIND.values():
            L.append(f"  | {k} => [" + "; ".join(rows[k]) + "]")
        L.append("  end.")
        L.append("")

    with section(L, "[policy] table keys (serialization.rs mod policy)"):
        pass
        ser = strip_comments(read("src/serialization.rs"))
        polmod = item_body(ser, r"\bpub\s+mod\s+policy\s*\{", "serialization::policy")
        if not re.search(r"split_once\(\s*VERSION_SEPARATOR\s*\)", polmod) or not re.search(r"crate_version\s*\.\s*parse\(\)", polmod):
            raise TranslateError("policy keys are no longer parsed by split_once(VERSION_SEPARATOR) + VetVersion::from_str")
        if const_str(polmod, "VERSION_SEPARATOR") != ":":
            raise TranslateError("policy key separator is no longer ':'")
        full = tri(bool(re.search(r"for\s*\(\s*version\s*,\s*entry\s*\)\s*in\s+version\s*\{\s*ret\s*\.\s*insert\(\s*"
                                  r"format!\(\s*\"\{name\}\{VERSION_SEPARATOR\}\{version\}\"\s*\)\s*,\s*entry\s*,?\s*\)", polmod)),
                   bool(re.search(r"format!\([^)]*version\.semver", polmod)), "key of a versioned policy entry")
        L.append("(* the key of a versioned policy entry is written from the whole VetVersion (semver and git revision) *)")
        L.append(f"Definition POLICY_KEY_USES_FULL_VERSION : bool := {'true' if full else 'false'}.")
        L.append("")

    with section(L, "certify: the criteria test of try_collapse_with_prior"):
        pass
        tc = fn_body(fmt, "try_collapse_with_prior")
        eq = tri(bool(re.search(r"if\s+other\.criteria\s*!=\s*self\.criteria\s*\{\s*return\s+None\s*;?\s*\}", tc)) or
                 bool(re.search(r"if\s+self\.criteria\s*!=\s*other\.criteria\s*\{\s*return\s+None\s*;?\s*\}", tc)),
                 "criteria" not in tc,
                 "criteria comparison of try_collapse_with_prior")
        L.append("(* format.rs try_collapse_with_prior: `if other.criteria != self.criteria { return None; }` — the two WRITTEN lists must be equal *)")
        L.append(f"Definition COLLAPSE_REQUIRES_EQUAL_CRITERIA_LISTS : bool := {'true' if eq else 'false'}.")
        L.append("")

    with section(L, "imports_lock_outdated: what is compared between config.toml and imports.lock"):
        pass
        lo = fn_body(storage, "imports_lock_outdated")
        keys = tri(bool(re.search(r"self\.config\.imports\.keys\(\)\s*\.ne\(\s*self\.imports\.audits\.keys\(\)\s*\)", lo)) or
                   bool(re.search(r"self\.imports\.audits\.keys\(\)\s*\.ne\(\s*self\.config\.imports\.keys\(\)\s*\)", lo)),
                   bool(re.search(r"\.len\(\)\s*!=\s*self\.[a-z_.]+\.len\(\)", lo)) and ".keys()" not in lo,
                   "first comparison of imports_lock_outdated")
        L.append("(* storage.rs imports_lock_outdated: `self.config.imports.keys().ne(self.imports.audits.keys())` — the import NAMES are compared *)")
        L.append(f"Definition LOCK_SYNC_COMPARES_KEYS : bool := {'true' if keys else 'false'}.")
        L.append("")

    with section(L, "guess_audit_criteria: is the second look given the delta's from version?"):
        pass
        ga = fn_body(mainrs, "guess_audit_criteria")
        calls = re.findall(r"\.compute_suggested_criteria\(\s*([^)]*?)\s*\)", ga)
        if len(calls) != 2:
            raise TranslateError(f"guess_audit_criteria calls compute_suggested_criteria {len(calls)} times, not twice")
        norm = [re.sub(r"\s+", "", c_) for c_ in calls]
        uses = tri(norm[0] == norm[1] and norm[0].split(",")[1] == "from",
                   norm[0].split(",")[1] == "from" and norm[1].split(",")[1] == "None",
                   "arguments of the two compute_suggested_criteria calls in guess_audit_criteria")
        L.append("(* main.rs guess_audit_criteria: both looks call compute_suggested_criteria(package, from, to) *)")
        L.append(f"Definition GUESS_SECOND_LOOK_USES_FROM : bool := {'true' if uses else 'false'}.")
        L.append("")

    with section(L, "Store::acquire_offline: the store-version rule"):
        pass
        ao = fn_body(storage, "acquire_offline")
        older = tri(bool(re.search(r"config\.cargo_vet\.version\s*<\s*current_version\s*&&\s*cfg\.cli\.locked", ao)) or
                    bool(re.search(r"cfg\.cli\.locked\s*&&\s*config\.cargo_vet\.version\s*<\s*current_version", ao)),
                    bool(re.search(r"if\s+config\.cargo_vet\.version\s*<\s*current_version\s*\{", ao)),
                    "older-store test of acquire_offline")
        newer = tri(bool(re.search(r"config\.cargo_vet\.version\s*>\s*current_version", ao)) and "NewerStore" in ao,
                    "NewerStore" not in ao, "newer-store test of acquire_offline")
        raises = tri(bool(re.search(r"config\.cargo_vet\.version\s*=\s*current_version\s*;", ao)),
                     "OutdatedStore" in ao and not re.search(r"cargo_vet\.version\s*=[^=]", ao),
                     "version assignment in acquire_offline")
        L.append("(* storage.rs Store::acquire_offline: an older store is refused only when --locked, a newer one always; an accepted")
        L.append("   store takes the current version (`config.cargo_vet.version = current_version;`) *)")
        L.append(f"Definition ACQUIRE_REFUSES_OLDER_ONLY_WHEN_LOCKED : bool := {'true' if older else 'false'}.")
        L.append(f"Definition ACQUIRE_REFUSES_NEWER : bool := {'true' if newer else 'false'}.")
        L.append(f"Definition ACQUIRE_RAISES_STORE_VERSION : bool := {'true' if raises else 'false'}.")
        L.append("")

    with section(L, "storage constants"):
        pass
        m = re.search(r"let\s+max_end_date\s*=\s*today\s*\+\s*chrono::Months::new\((\d+)\)", storage)
        if not m:
            raise TranslateError("max_end_date computation not found in Store::validate")
        L.append(f"Definition WILDCARD_MAX_END_MONTHS : N := {m.group(1)}.")
        if not re.search(r"if\s+entry\.end\s*>\s*max_end_date", storage):
            raise TranslateError("wildcard end-date cap comparison changed")
        L.append("Definition wildcard_end_refused (e_end max_end : Z) : bool := Z.ltb max_end e_end.")
        L.append(f"(* CARGO_OK_FILE = {const_str(storage, 'CARGO_OK_FILE')!r}, CARGO_OK_BODY = {const_str(storage, 'CARGO_OK_BODY')!r} *)")
        L.append("")

    text = "\n".join(L) + "\n"
    tmp = out_path + ".tmp"
    with open(tmp, "w") as f:
        f.write(text)
    # only touch the file when it changed, so make does not rebuild for nothing
    old = None
    if os.path.exists(out_path):
        with open(out_path) as f:
            old = f.read()
    if old != text:
        os.replace(tmp, out_path)
    else:
        os.remove(tmp)


if __name__ == "__main__":
    try:
        main(sys.argv[1] if len(sys.argv) > 1 else "/verif/coq/Extracted.v")
    except TranslateError as e:
        print(f"translate.py: {e}", file=sys.stderr)
        sys.exit(2)
    for e in ERRORS:
        print(f"translate.py: {e}", file=sys.stderr)
    if os.environ.get("VERIF_RECORD_TRANSLATE_DEFAULTS") == "1" and not ERRORS:
        with open(DEFAULTS_PATH, "w") as f:
            json.dump(RECORDED, f, indent=1)
