#!/bin/sh
# Build everything the checks need from files on disk only (offline).
set -e
cd "$(dirname "$0")/.."
export CARGO_NET_OFFLINE=true
python3 tools/translate.py coq/Extracted.v
cd coq
coq_makefile -f _CoqProject -o Makefile >/dev/null
timeout 3000 make -j16 >/dev/null
cd ..
python3 - <<'PY'
import sys
sys.path.insert(0, "tools")
import vetlib
vetlib.build_harness()
PY
echo "setup ok"
