"""props.py — per-property specifications for check.py: theorem files, generators,
projection compared between model and implementation, direct oracle."""
import glob
import re
import json
import os
import hashlib
from collections import Counter

import vetlib
import gen
import oracle as O
from vetlib import VERIF, coq

MODEL_IMPORTS = ["Base", "Extracted", "Criteria", "Search", "AuditGraph", "DepGraph", "Resolve", "Show"]

COMMON_TRUSTED = [
    "Coq 8.16.1 kernel (coqc, full .vo build); vm_compute for Examples and for evaluating the model on cases",
    "tools/translate.py (source -> coq/Extracted.v: enum orders, UpdateMode literals, publisher-window guard, constants)",
    "correspondence pipeline: tools/gen.py generators, /repo/src/tests/verif_harness.rs (interning with the real Ord/matches), tools/vetlib.py JSON->Coq conversion, string diff",
    "libraries used as oracles: semver ordering and VersionReq::matches, chrono date arithmetic, toml/serde parsing of the generated store text",
    "the theorems are about the Gallina model (coq/*.v); they are claimed of the code only as far as the correspondence run shows model and implementation agree",
]


def load_corpus(pid):
    out = []
    for path in sorted(glob.glob(os.path.join(VERIF, "corpus", pid, "*.json"))):
        with open(path) as f:
            c = json.load(f)
        c.setdefault("id", "corpus-" + os.path.basename(path)[:-5])
        out.append(c)
    return out


HOOK_COMMITS = ["29e0810", "739e797", "cf39cf9", "652b91e", "e71d18b", "87e24fd", "a0b177c", "d307356", "a2cf7a8", "32ea923",
                "c3212bb", "2017279", "f82d6ac", "f4f6e91", "3d9871e", "eae7527", "430b815", "50578be", "8cabe9e", "dbfd1e8", "b5be554", "2061294", "5e81022", "fbbe690", "b82c48c", "4e87dc5", "3e170f4", "f5496c2", "34204b1", "16e84c8"]
NOT_CLAIMED = {}


class Spec:
    level_text = ""
    level_note = ""
    technique = "Coq proof about a Gallina model + differential correspondence with the implementation"
    design_ref = "DESIGN.md §4"
    pid = None
    coq_files = []
    theorems = []
    allowed_axioms = []
    rule = ""
    projection_doc = ""
    assumptions = []
    quick_n = 200
    thorough_n = 3000

    def model_modules_paths(self):
        return ["Show"]

    def trusted_base(self, audit):
        ax = sorted({a for o in audit for a in o.get("axioms", [])})
        return COMMON_TRUSTED + ["axioms reported by Print Assumptions: " + (", ".join(ax) if ax else "none (Closed under the global context)")]


class ResolveSpec(Spec):
    """properties decided on the `resolve` case kind"""
    gen_kwargs = {}

    def gen_cases(self, rng, n):
        return [gen.gen_resolve_case(rng, f"g{i}", **self.gen_kwargs) for i in range(n)]

    def extra_cases(self):
        return []

    def findings(self):
        """list of (finding_id, case, still_fails(obs) -> bool)"""
        return []

    def model_expr(self, obs):
        mi = obs["model_input"]
        return f"sreport (resolve {coq(mi['graph'])} {coq(mi['store'])})"

    def parse(self, text):
        return O.Report(text)

    def project(self, rep, obs, model=None):
        """what of the report must agree between model and implementation"""
        raise NotImplementedError

    def oracle(self, case, obs, rep):
        return []

    def post_oracle(self, bycase, obs):
        return []

    def nontrivial(self, case, obs, rep):
        return True

    def classify(self, case, obs, rep):
        return rep.kind

    def run(self, rng, tier, work, model_ok=True, ncases=None, replay=None):
        n = ncases or (self.quick_n if tier == "quick" else self.thorough_n)
        if replay:
            with open(replay) as f:
                r = json.load(f)
            cases = [r.get("case", r)]
            cases[0].setdefault("id", "replay")
        else:
            cases = load_corpus(self.pid) + self.extra_cases() + self.gen_cases(rng, n)
        finds = self.findings()
        for fid, c, _ in finds:
            c["id"] = "finding-" + fid
        allcases = cases + [c for _, c, _ in finds]
        allcases = [gen.finalize(c) if "store_struct" in c else c for c in allcases]
        send = [gen.strip_struct(c) for c in allcases]
        obs = vetlib.run_harness(send, os.path.join(work, "impl"))
        status = Counter(o["status"] for o in obs.values())
        exprs = [(cid, self.model_expr(o)) for cid, o in obs.items() if o["status"] in ("ok", "panic") and "model_input" in o]
        model = vetlib.run_model(exprs, os.path.join(work, "model"), getattr(self, "model_imports", MODEL_IMPORTS)) if model_ok else {}
        res = {"cases": [c["id"] for c in allcases], "mismatches": [], "oracle_failures": [], "samples": [],
               "findings_seen": {}, "stats": {}}
        classes = Counter()
        seen_proj = set()
        nontrivial = 0
        compared = 0
        bycase = {c["id"]: c for c in allcases}
        for cid, o in obs.items():
            case = bycase[cid]
            if case.get("expect_loaded") and o["status"] == "refused":
                res["oracle_failures"].append({"id": cid, "what": f"the store was refused ({o.get('error_kind') or str(o.get('error'))[:120]}) although {case['expect_loaded']}",
                                               "finding": None, "case": gen.strip_struct(case)})
            if case.get("expect_refused") and o["status"] != "refused":
                res["oracle_failures"].append({"id": cid, "what": f"the store was loaded ({o['status']}) although {case['expect_refused']}",
                                               "finding": None, "case": gen.strip_struct(case)})
            if o["status"] == "refused":
                continue
            if o["status"] != "ok":
                res["mismatches"].append({"id": cid, "why": f"implementation {o['status']}: " + str(o.get("panic") or o.get("error"))[:300],
                                          "case": gen.strip_struct(case)})
                continue
            rep = self.parse(o["obs"])
            classes[self.classify(case, o, rep)] += 1
            pi = self.project(rep, o)
            if model_ok:
                m = model.get(cid, "MODEL-ERROR: missing")
                if m.startswith("MODEL-ERROR"):
                    res["mismatches"].append({"id": cid, "why": "model evaluation failed: " + m[:300], "case": gen.strip_struct(case)})
                else:
                    compared += 1
                    pm = self.project(self.parse(m), o, model=m)
                    if pm != pi:
                        res["mismatches"].append({"id": cid, "why": "projection differs", "impl": pi, "model": pm,
                                                  "case": gen.strip_struct(case)})
                    if "(fuel)" in m:
                        res["mismatches"].append({"id": cid, "why": "model ran out of fuel", "case": gen.strip_struct(case)})
            for what in self.oracle(case, o, rep):
                fid = what.get("finding") if isinstance(what, dict) else None
                text = what["what"] if isinstance(what, dict) else what
                res["oracle_failures"].append({"id": cid, "what": text, "finding": fid, "case": gen.strip_struct(case)})
            ex = case.get("expect")
            if ex:
                # a verdict that follows from the property text alone (small planted cases)
                nodes_ = o["tables"]["nodes"]
                if ex.get("fails"):
                    failing = {nodes_[i].split(":")[0] for i in rep.failures()}
                    if rep.kind == "success" or (rep.kind == "failvet" and ex["fails"] not in failing):
                        res["oracle_failures"].append({"id": cid, "what": f"{ex['fails']} is not reported as failing (verdict {rep.kind}) although {ex['why']}",
                                                       "finding": None, "case": gen.strip_struct(case)})
                if ex.get("passes") and rep.kind != "success":
                    res["oracle_failures"].append({"id": cid, "what": f"the verdict is {rep.kind} although {ex['why']}",
                                                   "finding": None, "case": gen.strip_struct(case)})
                if ex.get("conflict"):
                    hit = {nodes_[i].split(":")[0] for i in rep.conflicts()} if rep.kind == "violation" else set()
                    if ex["conflict"] not in hit:
                        res["oracle_failures"].append({"id": cid, "what": f"no violation conflict is reported for {ex['conflict']} (verdict {rep.kind}) although {ex['why']}",
                                                       "finding": None, "case": gen.strip_struct(case)})
            if not cid.startswith("finding-"):
                for text in O.fidelity(case, o)[:2]:
                    res["oracle_failures"].append({"id": cid, "what": "input fidelity: " + text, "finding": None, "case": gen.strip_struct(case)})
            if self.nontrivial(case, o, rep):
                h = hashlib.sha256(json.dumps(pi, sort_keys=True).encode()).hexdigest()
                if h not in seen_proj:
                    seen_proj.add(h)
                    nontrivial += 1
            if len(res["samples"]) < 3 and not cid.startswith("finding-"):
                res["samples"].append({"id": cid, "graph": case["graph"], "store": case["store"], "mode": case.get("mode"),
                                       "observation": o["obs"][:600]})
        for what in self.post_oracle(bycase, obs):
            res["oracle_failures"].append(what)
        for fid, c, still in finds:
            o = obs.get(c["id"])
            if o and still(o):
                res["findings_seen"][fid] = True
        res["nontrivial"] = nontrivial
        res["stats"] = {"harness_status": dict(status), "conclusions": dict(classes), "compared": compared,
                        "graph_sizes": dict(Counter(len(c["graph"]["packages"]) for c in allcases))}
        # keep mismatches for inspection
        if res["mismatches"]:
            with open(os.path.join(work, "mismatches.json"), "w") as f:
                json.dump(res["mismatches"][:20], f, indent=1)
        return res


def required_pairs(rep, o):
    """(node index, criterion) pairs required of third-party nodes — computed from the policy rules by the
    independent fixpoint of tools/oracle.py (NOT taken from the implementation's own requirement vector)"""
    table = O.table_of(o["model_input"]["store"])
    nodes, _ = O.graph_nodes(o["model_input"]["graph"])
    n = O.ncrit(table)
    R = o.get("_indep_reqs")
    if R is None:
        R, _ = O.requirements(table, o["model_input"]["graph"])
        o["_indep_reqs"] = R if R is not None else False
    out = []
    for i, nd in enumerate(nodes):
        if nd["third"]:
            for c in range(n):
                if (c in R[i]) if R else ((rep.reqs[i] >> c) & 1):
                    out.append((i, c))
    return out


class C01(ResolveSpec):
    pid = "C01"
    level_text = 'Theorem C01_success_sound (Coq, closed under the global context): in the Gallina model of resolve, a Success conclusion implies that every third-party node has, for every required criterion, a chain of store-record edges from the root to its exact version each carrying the criterion; proved for all graphs, tables and stores via soundness of the heap search. The model is tied to the code by regenerating Extracted.v from the source and by comparing model and implementation on generated graphs/stores every run.'
    level_note = 'Model = coq/{Criteria,Search,AuditGraph,DepGraph,Resolve}.v, hand-written; tie to code = translator for tables + differential run on generated cases (a test, not a proof). Assumes validated stores (criteria references defined).'
    design_ref = 'DESIGN.md §4 C01'
    coq_files = ["Properties/C01.v"]
    theorems = ["C01_success_sound", "C01_links_are_records"]
    rule = ("seeded random dependency graphs (1-2 workspace members, 0-2 first-party, 1-5 third-party crates, second versions, "
            "git/path forks, normal/build/dev edges, dev cycles) x stores with every record kind over a 6-version universe; "
            "non-trivial = the verdict is Success or at least one (crate, criterion) pair is certified; distinct = distinct projection")
    projection_doc = "conclusion kind; requirement vector; for every third-party node and criterion whether the search succeeded"
    assumptions = ["criteria indices in the generated stores are defined (validated store); see C15 for the rest"]

    def extra_cases(self):
        return gen.gen_expect_cases(None, "builtin-mapped-to-nothing") + gen.gen_expect_cases(None, "trusted-twin-windows")

    def gen_cases(self, rng, n):
        cases = []
        for i in range(n):
            c = gen.gen_resolve_case(rng, f"g{i}")
            if i % 3 == 1:
                # publisher-based first links from several sources (local and imported wildcard audits, trusted entries)
                gen.boost_grants(rng, c)
                gen.boost_grants(rng, c)
            if i % 5 == 2:
                # what a dev-dependency must meet is decided by one `dependency-criteria` entry of a workspace member
                gen.boost_dev_dep_policy(rng, c)
            if i % 5 == 4:
                # a waived crate (nothing required of it) whose own policy still demands something of its dependency
                gen.boost_waived_parent(rng, c)
            if i % 10 == 3:
                # an exemption that lists no criteria certifies nothing
                gen.boost_empty_exemption(rng, c)
            if i % 10 == 8:
                # two trusted entries for one publisher: each counts for its own criteria
                gen.boost_two_trusted(rng, c)
            if i % 10 == 6:
                # wildcard audits of one crate in two sources, entry #0 of each, with different criteria
                gen.boost_wild_two_sources(rng, c)
            if i % 10 == 0:
                # a crates.io package sharing its name with a path package whose (unversioned) policy says audit-as-crates-io = false
                gen.boost_overlap_unversioned(rng, c)
            cases.append(c)
        return cases

    def project(self, rep, o, model=None):
        ok = []
        for i, r in enumerate(rep.results):
            if r[0] == "s":
                ok.append([i] + [1 if x[0] == "ok" else 0 for x in r[1:]])
            else:
                ok.append([i, r[0]])
        return {"kind": rep.kind, "reqs": rep.reqs, "ok": ok}

    def nontrivial(self, case, o, rep):
        return rep.kind == "success" or any(x[0] == "ok" for r in rep.results if r[0] == "s" for x in r[1:])

    def oracle(self, case, o, rep):
        # success => every required pair has a chain of records; the reported
        # path itself must be such a chain
        if rep.kind != "success":
            return []
        out = []
        store = o["model_input"]["store"]
        table = O.table_of(store)
        nodes, _ = O.graph_nodes(o["model_input"]["graph"])
        for (i, c) in required_pairs(rep, o):
            edges = O.edges_of(table, O.pkg_store(store, nodes[i]["name"]))
            if not O.certified(edges, c, nodes[i]["version"]):
                out.append(f"vet succeeds but node {o['tables']['nodes'][i]} has no chain of records for criterion {o['tables']['criteria'][c]}")
                continue
            sr = rep.search(i, c)
            if sr is None or sr[0] != "ok":
                out.append(f"success reported but the search for node {i} criterion {c} did not succeed")
                continue
            why = O.check_path(edges, sr[1:], c, nodes[i]["version"])
            if why:
                out.append(f"the chain reported for {o['tables']['nodes'][i]} / {o['tables']['criteria'][c]} is not a chain of records: {why}")
        return out


def verdict_vs_records(rep, o):
    """independent of the implementation's searches: the verdict must be what the records of the store (each counting for
    the closure of ITS OWN criteria, nothing else) say about every required (crate, criterion) pair"""
    out = []
    if rep.kind == "violation":
        return out
    store = o["model_input"]["store"]
    table = O.table_of(store)
    nodes, _ = O.graph_nodes(o["model_input"]["graph"])
    names = o["tables"]["nodes"]
    expected = {}
    for (i, c) in required_pairs(rep, o):
        edges = O.edges_of(table, O.pkg_store(store, nodes[i]["name"]))
        if not O.certified(edges, c, nodes[i]["version"]):
            expected.setdefault(i, set()).add(c)
    if rep.kind == "success" and expected:
        i = sorted(expected)[0]
        out.append(f"vet succeeds although {names[i]} lacks a chain for {sorted(expected[i])} (records counted for their own criteria and what those imply)")
    if rep.kind == "failvet":
        got = {i: O.unbits(b) for i, b in rep.failures().items()}
        if got != expected:
            out.append(f"failure report {got} differs from the uncertified required pairs {expected} (records counted for their own criteria and what those imply)")
    return out


class C02(ResolveSpec):
    pid = "C02"
    level_text = "Theorems C02_failures_exact, C02_failures_complete, C02_no_false_failure, C02_has_errors (all unconditional): the failure list of the model's resolve is exactly the required-and-uncertified (node, criterion) pairs and success follows when all are certified and no conflict exists; via completeness of the search (the failed search visits exactly the reachable set) and C02_fuel_is_an_artefact: the model's explicit search fuel provably always suffices (potential-function argument over the queue and the unvisited versions; a failed backward search excludes a successful forward one by transposing chains), so no fuel hypothesis remains. Report rendering (JSON/human minimal criteria names) is checked by the direct oracle on the implementation, not proved."
    level_note = "as C01; plus: rendering of failures in print_json/print_human is compared against the oracle's minimal-criteria rendering on every case (differential test)."
    design_ref = 'DESIGN.md §4 C02'
    coq_files = ["Properties/C02.v"]
    theorems = ["C02_failures_exact", "C02_failures_complete", "C02_no_false_failure", "C02_has_errors", "C02_fuel_is_an_artefact"]
    rule = C01.rule.replace("non-trivial = the verdict is Success or at least one (crate, criterion) pair is certified",
                            "non-trivial = the verdict is FailForVet with at least one failing criterion, or Success")
    projection_doc = "conclusion kind; failure list with criteria bitsets; has_errors; JSON report failures (names, versions, minimal criteria)"
    assumptions = C01.assumptions

    def extra_cases(self):
        return gen.gen_expect_cases(None, "unpublished-after-publication")

    def gen_cases(self, rng, n):
        cases = []
        for i in range(n):
            c = gen.gen_resolve_case(rng, f"g{i}", **self.gen_kwargs)
            if i % 8 == 5:
                # a crate certified only by the SECOND of two trusted entries naming its publisher
                gen.boost_two_trusted(rng, c)
            if i % 8 == 2:
                # a table with a redundant direct implication in the middle of a list
                gen.boost_redundant_implies(rng, c)
            if i % 8 == 7:
                # a workspace member listed before the member that depends on it is not a top-level crate
                gen.boost_member_order(rng, c)
            cases.append(c)
        return cases

    def project(self, rep, o, model=None):
        return {"kind": rep.kind, "failures": sorted(rep.failures().items()), "reqs": rep.reqs}

    def nontrivial(self, case, o, rep):
        return rep.kind in ("failvet", "success")

    def oracle(self, case, o, rep):
        out = []
        store = o["model_input"]["store"]
        table = O.table_of(store)
        nodes, _ = O.graph_nodes(o["model_input"]["graph"])
        names = o["tables"]["nodes"]
        crit_names = o["tables"]["criteria"]
        extra = o.get("extra", {})
        if "has_errors" in extra and extra["has_errors"] != (rep.kind != "success"):
            out.append("has_errors() disagrees with the conclusion")
        if rep.kind == "violation":
            return out
        expected = {}
        for (i, c) in required_pairs(rep, o):
            edges = O.edges_of(table, O.pkg_store(store, nodes[i]["name"]))
            if not O.certified(edges, c, nodes[i]["version"]):
                expected.setdefault(i, set()).add(c)
        if rep.kind == "success" and expected:
            i = sorted(expected)[0]
            out.append(f"vet succeeds although {names[i]} lacks a chain for {sorted(expected[i])}")
        if rep.kind == "failvet":
            got = {i: O.unbits(b) for i, b in rep.failures().items()}
            if got != expected:
                out.append(f"failure report {got} differs from the uncertified required pairs {expected}")
            # rendering: JSON report lists exactly the minimal criteria names
            jr = (extra.get("json_report") or {}).get("failures")
            if jr is not None:
                want = sorted((names[i].split(":")[0], names[i].split(":", 1)[1], sorted(crit_names[c] for c in O.minimal(table, s)))
                              for i, s in expected.items())
                have = sorted((f["name"], f["version"], sorted(f["missing_criteria"])) for f in jr)
                if want != have:
                    out.append(f"JSON failure list {have} is not the minimal rendering of the uncertified pairs {want}")
            hr = extra.get("human_report")
            if hr is not None:
                for i, s in expected.items():
                    line = f"  {names[i]} missing {json.dumps([crit_names[c] for c in O.minimal(table, s)])}"
                    if line.replace(", ", ", ") not in hr.replace("', '", '", "').replace("['", '["').replace("']", '"]'):
                        out.append(f"human report lacks the line {line!r}")
        if not expected and rep.kind == "failvet":
            out.append("vet fails for missing audits although every required pair is certified")
        return out


class C06(ResolveSpec):
    pid = "C06"
    level_text = "Theorem C06_grant_edges: every wildcard/trusted edge of the model's audit graph stems from a publisher record of that crate's store for exactly the edge's version, by the entry's user id, with start <= day <= end, carrying the entry's criteria closure; trusted edges only from the local file's table. The window comparison operators are taken from the source by the translator, so the theorem is re-proved against the code's current guard on every run."
    level_note = "as C01. The load-time cap on wildcard end dates is covered under C15's validate model."
    design_ref = 'DESIGN.md §4 C06'
    coq_files = ["Properties/C06.v"]
    theorems = ["C06_grant_edges", "C06_only_grants_use_publishers", "C06_certified_by_grants_alone", "C06_gap_between_windows_gets_nothing"]
    rule = ("as C01, with wildcard-audit/trusted entries and publisher records on every crate, dates drawn from a 9-date set "
            "so that start/end/publication days coincide, are adjacent or far apart; non-trivial = some reported path uses a "
            "wildcard or trusted edge or some publisher record is rejected by the window")
    projection_doc = "for every third-party node and criterion: search success and both reachable sets (they expose exactly which grant edges exist)"
    gen_kwargs = {}

    def extra_cases(self):
        """a project's own wildcard audit ending more than a year after today is refused at load, locked or not"""
        import random as _r
        out = []
        for k, (mode, end) in enumerate([("locked", "2024-01-02"), ("unlocked", "2024-01-02"), ("unlocked", "2025-06-01"),
                                         ("locked", "2030-01-01"), ("unlocked", "2024-02-29")]):
            rng = _r.Random(1000 + k)
            c = gen.gen_unlocked_case(rng, f"far{k}", p_violation=0.0) if mode == "unlocked" else gen.gen_resolve_case(rng, f"far{k}")
            st = c["store_struct"]
            crate = sorted({p["name"] for p in c["graph"]["packages"]})[0]
            st["wildcard_audits"].setdefault(crate, []).append(
                {"user-id": 1, "start": "2022-01-01", "end": end, "criteria": ["safe-to-run"], "notes": "far ahead"})
            c["expect_refused"] = f"its own wildcard audit for {crate} ends on {end}, more than a year after today"
            out.append(gen.finalize(c))
        return out + gen.gen_expect_cases(None, "wildcard-window-gap")

    def gen_cases(self, rng, n):
        cases = []
        for i in range(n):
            if i % 3 == 2:
                # unlocked: live peers with their own trusted tables (which must grant nothing)
                c = gen.boost_peer_trusted(rng, gen.gen_unlocked_case(rng, f"g{i}"))
            else:
                c = gen.gen_resolve_case(rng, f"g{i}")
                gen.boost_grants(rng, c)
                if i % 6 == 4:
                    gen.boost_two_trusted(rng, c)
            cases.append(c)
        return cases

    def project(self, rep, o, model=None):
        out = []
        for i, r in enumerate(rep.results):
            if r[0] == "s":
                out.append([i] + [x if x[0] == "err" else ["ok"] for x in r[1:]])
        return {"kind": rep.kind, "search": out}

    def nontrivial(self, case, o, rep):
        return "(W " in o["obs"] or "(T " in o["obs"]

    def oracle(self, case, o, rep):
        # every grant edge on a reported path must be backed by a publisher
        # record (exact crate, exact version, same user, day within window)
        out = []
        store = o["model_input"]["store"]
        table = O.table_of(store)
        nodes, _ = O.graph_nodes(o["model_input"]["graph"])
        for i, r in enumerate(rep.results):
            if r[0] != "s":
                continue
            edges = O.edges_of(table, O.pkg_store(store, nodes[i]["name"]))
            for c, sr in enumerate(r[1:]):
                if sr[0] == "ok":
                    if any(x[0] in ("W", "T") for x in sr[1:]):
                        why = O.check_path(edges, sr[1:], c, nodes[i]["version"])
                        if why:
                            out.append(f"grant used outside its user/crate/window/criteria for {o['tables']['nodes'][i]}: {why}")
                else:
                    # reachable-from-root must not contain versions only a bogus grant could give
                    reach = O.reachable(edges, c, None)
                    got = {None if v == "n" else int(v) for v in O.sexp_get(sr, "root")[1:]}
                    if not got <= reach:
                        out.append(f"{o['tables']['nodes'][i]}: versions {sorted(x for x in got - reach)} reachable from the root for criterion {c} without a backing record")
        return out


class C12(ResolveSpec):
    pid = "C12"
    level_text = 'Theorems C12_fully_only_if / C12_fully_if / C12_search_minimax: a crate is classified fully audited only if every required criterion has an exemption-free chain, and always when chains at caveat level <= NonImportableAudit exist; from the minimax optimality of the heap search (search_spec) with the CaveatLevel order read from the source. The prune half: C12_pruned_exemption_criteria_are_needed — prune (PreferFreshImports search, exemption pruning on; both re-read from main.rs) leaves on an exemption only criteria that some search recorded for it, and every recorded criterion belongs to an in-graph version that has NO certifying chain of audits and grants alone (provenance invariant on the required-entry map + minimax: a chain of audits and grants has caveat level <= FreshImport < Exemption).'
    level_note = 'as C01. The statement about `cargo vet prune` keeping exemptions is decided on the `update` case kind (Update.v) when present in this revision; otherwise only the resolver half is claimed.'
    design_ref = 'DESIGN.md §4 C12'
    coq_files = ["Properties/C12.v"]
    theorems = ["C12_fully_only_if", "C12_fully_if", "C12_search_minimax", "C12_prune_mode", "C12_pruned_exemption_criteria_are_needed"]
    rule = ("as C01 with exemptions on in-graph and intermediate versions competing with audits; non-trivial = Success with at "
            "least one crate in each of two different categories or a path mixing exemption and audit edges")
    projection_doc = "success classification lists; for every required (node, criterion) whether the chosen path uses an exemption"

    def model_modules_paths(self):
        return ["Show", "ShowUpdate"]

    def run(self, rng, tier, work, model_ok=True, ncases=None, replay=None):
        if replay:
            with open(replay) as f:
                r = json.load(f)
            if (r.get("case", r)).get("kind") == "history":
                return _C12Hist().run(rng, tier, work, model_ok, ncases, replay)
        res = super().run(rng, tier, work, model_ok, ncases, replay)
        if replay:
            return res
        # the prune half of the property: command histories through the real cmd_prune, with the update re-evaluated in the
        # model and the files prune wrote judged by an independent reachability over the records
        hs = _C12Hist()
        n = 40 if tier == "quick" else 400
        r2 = hs.run(__import__("random").Random(rng.random()), tier, os.path.join(work, "hist"), model_ok, ncases=n)
        res["cases"] += r2["cases"]
        res["mismatches"] += r2["mismatches"]
        res["oracle_failures"] += r2["oracle_failures"]
        res["stats"]["prune_histories"] = r2.get("stats", {})
        res["stats"]["compared"] = res["stats"].get("compared", 0) + r2.get("stats", {}).get("compared", 0)
        return res

    def gen_cases(self, rng, n):
        cases = []
        for i in range(n):
            c = gen.gen_resolve_case(rng, f"g{i}")
            gen.boost_exemptions(rng, c)
            if i % 3 == 1:
                gen.boost_dense_success(rng, c)
            if i % 4 == 2:
                gen.boost_grant_vs_exemption(rng, c)
            if i % 8 == 7:
                # certified by the SECOND of two trusted entries of its publisher, and exempted on top: fully audited all the same
                gen.boost_two_trusted_exempted(rng, c)
            cases.append(c)
        return cases

    def project(self, rep, o, model=None):
        uses = []
        for (i, c) in required_pairs(rep, o):
            sr = rep.search(i, c)
            if sr is not None and sr[0] == "ok":
                uses.append([i, c, any(x[0] == "X" for x in sr[1:])])
        return {"kind": rep.kind, "lists": rep.success_lists(), "uses_exemption": uses}

    def nontrivial(self, case, o, rep):
        return rep.kind == "success" and "(X " in o["obs"]

    def oracle(self, case, o, rep):
        if rep.kind != "success":
            return []
        out = []
        store = o["model_input"]["store"]
        table = O.table_of(store)
        nodes, _ = O.graph_nodes(o["model_input"]["graph"])
        lists = rep.success_lists()
        req = {}
        for (i, c) in required_pairs(rep, o):
            req.setdefault(i, []).append(c)
        for i, nd in enumerate(nodes):
            if not nd["third"]:
                continue
            edges = O.edges_of(table, O.pkg_store(store, nd["name"]))
            noex = all(O.certified(edges, c, nd["version"], avoid=lambda e: e[4].get("exemption")) for c in req.get(i, []))
            plain = all(O.certified(edges, c, nd["version"],
                                    avoid=lambda e: e[4].get("exemption") or e[4].get("unpublished") or e[4].get("fresh") or e[4].get("fresh_pub"))
                        for c in req.get(i, []))
            if i in lists["full"] and not noex:
                out.append(f"{o['tables']['nodes'][i]} reported fully audited but some required criterion has no exemption-free chain")
            if plain and i not in lists["full"]:
                out.append(f"{o['tables']['nodes'][i]} not reported fully audited although stored audits and grants suffice")
        return out


def rewrite_store(rng, store, how):
    """metamorphic rewriting of every NON-violation criteria list"""
    import copy
    st = copy.deepcopy(store)

    def rw(l):
        if l is None:
            return None
        clo = set()
        for c in l:
            clo |= gen.py_closure(st, c)
        if how == "closure":
            out = sorted(clo)
            rng.shuffle(out)
            return out
        if how == "minimal":
            return gen.py_minimal_names(st, clo) if l else []
        out = list(l) + ([rng.choice(l)] if l else [])
        rng.shuffle(out)
        return out

    def files():
        yield st
        for f in st["lock"]["audits"].values():
            yield f
    for f in files():
        for l in f.get("audits", {}).values():
            for a in l:
                if a["kind"] != "violation":
                    a["criteria"] = rw(a["criteria"])
        for l in f.get("wildcard_audits", {}).values():
            for w in l:
                w["criteria"] = rw(w["criteria"])
        for l in f.get("trusted", {}).values():
            for w in l:
                w["criteria"] = rw(w["criteria"])
    for l in st["exemptions"].values():
        for e in l:
            e["criteria"] = rw(e["criteria"])
    for p in st["policy"].values():
        for k in ("criteria", "dev-criteria"):
            if p.get(k) is not None:
                p[k] = rw(p[k])
        for k in list(p.get("dependency-criteria", {})):
            p["dependency-criteria"][k] = rw(p["dependency-criteria"][k])
    if how == "ghost":
        st["audits"].setdefault("zz-not-in-graph", []).append(
            {"kind": "full", "version": "1.0.0", "criteria": ["safe-to-deploy"], "notes": "ghost"})
        st["exemptions"].setdefault("zz-not-in-graph", []).append(
            {"version": "1.0.0", "criteria": ["safe-to-run"], "suggest": True, "notes": "ghost"})
    return st


class C05(ResolveSpec):
    pid = "C05"
    level_text = ("Theorems C05_exact_meaning / C05_closure_is_least (the DFS of CriteriaMapper::new computes exactly the reflexive-"
                  "transitive closure of the direct implications, for every table), C05_reorder_duplicate, C05_replace_by_closure, "
                  "C05_replace_by_minimal, C05_minimal_has_no_implied_duplicates, C05_edges_use_closure: a written list denotes the "
                  "union of the closures of its members and the audit graph reads lists only through that set. VERDICT LEVEL: "
                  "C05_verdict_invariant_under_rewriting — rewriting every criteria list of every audit, wildcard audit, trusted entry "
                  "and exemption of a store to any list with the same from_list leaves the WHOLE report of resolve identical (all "
                  "graphs and stores), with the three rewritings the property names as corollaries (reorder/duplicate, closure, "
                  "minimal generating set). The same rewritings are also run metamorphically on the implementation.")
    level_note = ("Closure algebra proved for the model's fuelled DFS (fuel n+1 shown sufficient). Verdict invariance across rewritten stores "
                  "is a differential/metamorphic test, not a theorem. Violation-entry lists are excluded: rewriting them changes the "
                  "verdict by design (book/src/algorithm.md) — recorded as known finding F-C05v.")
    design_ref = "DESIGN.md §4 C05"
    coq_files = ["Properties/C05.v"]
    theorems = ["C05_exact_meaning", "C05_closure_is_least", "C05_reorder_duplicate", "C05_replace_by_closure",
                "C05_replace_by_minimal", "C05_minimal_has_no_implied_duplicates", "C05_edges_use_closure", "C05_verdict_invariant_under_rewriting", "C05_verdict_invariant_under_policy_rewriting", "C05_verdict_invariant_store_and_policy", "C05_verdict_invariant_reorder_duplicate", "C05_verdict_invariant_closure", "C05_verdict_invariant_minimal",
                "C05_certify_records_what_was_asked", "C05_certify_writes_the_requested_criteria", "C05_folding_with_a_weaker_record_refuted"]
    rule = ("criteria tables with 2-4 custom criteria (chains, diamonds, customs implying built-ins); every base store is paired with "
            "rewritten stores (all non-violation lists replaced by their closure / minimal set / shuffled+duplicated; records for a "
            "crate outside the graph added); non-trivial = the base store has a custom criterion with a non-empty implies list and a "
            "verdict other than all-fail. History stage: the real `certify` in generated command histories plus three deterministic "
            "histories folding adjacent git-revision deltas (weaker / stronger / equal prior criteria): every audit certify writes "
            "denotes the criteria asked for, a folded prior audit was recorded for the same set")
    projection_doc = "implied-criteria set of every criterion; requirement vector; conclusion; failures; per pair search success"
    quick_n = 60
    thorough_n = 800

    def gen_cases(self, rng, n):
        out = []
        for i in range(n):
            base = gen.gen_resolve_case(rng, f"g{i}-base", ncustom=rng.choice([2, 3, 4]))
            if i % 3 == 2:
                # publisher-based grants from several sources with different criteria (each entry keeps ITS criteria)
                gen.boost_grants(rng, base)
                gen.boost_grants(rng, base)
                base = gen.finalize(base)
            if i % 5 == 1:
                # a table with a redundant direct implication in the middle of a list (the closure must not stop there)
                gen.boost_redundant_implies(rng, base)
                base = gen.finalize(base)
            out.append(base)
            for how in ("closure", "minimal", "shuffle", "ghost"):
                v = dict(base)
                v["id"] = f"g{i}-{how}"
                v["store_struct"] = rewrite_store(rng, base["store_struct"], how)
                out.append(gen.finalize(v))
        return out

    def model_modules_paths(self):
        return ["Show", "ShowUpdate", "ShowCollapse", "ShowAggregate", "proofs/EmbedProofs"]

    def run(self, rng, tier, work, model_ok=True, ncases=None, replay=None):
        if replay:
            with open(replay) as f:
                r = json.load(f)
            if (r.get("case", r)).get("kind") == "history":
                return _C05Hist().run(rng, tier, work, model_ok, ncases, replay)
            if (r.get("case", r)).get("kind") == "aggregate":
                return C16().run(rng, tier, work, model_ok, ncases, replay)
        res = super().run(rng, tier, work, model_ok, ncases, replay)
        if replay:
            return res
        # "every criteria list cargo-vet writes denotes the set it computed", for the one command that writes an audit:
        # command histories through the real `certify` (incl. the folding of adjacent git-revision deltas)
        hs = _C05Hist()
        n = 12 if tier == "quick" else 150
        r2 = hs.run(__import__("random").Random(rng.random()), tier, os.path.join(work, "hist"), model_ok, ncases=n)
        res["cases"] += r2["cases"]
        res["mismatches"] += r2["mismatches"]
        res["oracle_failures"] += r2["oracle_failures"]
        res["stats"]["certify_histories"] = r2.get("stats", {})
        res["stats"]["compared"] = res["stats"].get("compared", 0) + r2.get("stats", {}).get("compared", 0)
        # aggregation must not change what a criterion MEANS: two sources defining one name differently (other implies lists,
        # whichever is the larger) are refused, and every source criterion is defined in the aggregate as in its source — the
        # aggregate check's own cases and oracles, a small share of them
        ag = C16()
        r3 = ag.run(__import__("random").Random(rng.random()), tier, os.path.join(work, "agg"), model_ok, ncases=(24 if tier == "quick" else 300))
        res["cases"] += r3["cases"]
        res["mismatches"] += r3["mismatches"]
        res["oracle_failures"] += r3["oracle_failures"]
        res["stats"]["aggregate_cases"] = len(r3["cases"])
        return res

    def model_expr(self, obs):
        mi = obs["model_input"]
        st = coq(mi["store"])
        return (f"(let s := {st} in sp \"both\" [sreport (resolve {coq(mi['graph'])} s); "
                f"sp \"implied\" (map (fun c => sN (closure (st_criteria s) c)) (nseq 0 (ct_len (st_criteria s))))])")

    def parse(self, text):
        e = vetlib.parse_sexp(text)
        if e[0] == "both":
            r = O.Report(e[1])
            r.implied = [int(x) for x in e[2][1:]]
            return r
        return O.Report(e)

    def project(self, rep, o, model=None):
        implied = rep.implied if model is not None else [int(x) for x in o["extra"]["implied"]]
        ok = [[i] + [1 if x[0] == "ok" else 0 for x in r[1:]] for i, r in enumerate(rep.results) if r[0] == "s"]
        return {"implied": implied, "kind": rep.kind, "reqs": rep.reqs, "failures": sorted(rep.failures().items()), "ok": ok}

    def nontrivial(self, case, o, rep):
        return any(c.get("implies") for c in case["store_struct"]["criteria"].values()) and "(ok" in o["obs"]

    def oracle(self, case, o, rep):
        out = verdict_vs_records(rep, o)
        table = O.table_of(o["model_input"]["store"])
        implied = [int(x) for x in o["extra"]["implied"]]
        for c in range(O.ncrit(table)):
            if implied[c] != O.bits(O.closure(table, c)):
                out.append(f"criterion {o['tables']['criteria'][c]} is taken to mean {sorted(O.unbits(implied[c]))}, its implication closure is {sorted(O.closure(table, c))}")
        return out

    def post_oracle(self, bycase, obs):
        out = []
        groups = {}
        for cid in obs:
            if "-" in cid and cid.startswith("g"):
                groups.setdefault(cid.split("-")[0], {})[cid.split("-", 1)[1]] = cid
        for g, m in groups.items():
            if "base" not in m or obs[m["base"]]["status"] != "ok":
                continue
            b = O.Report(obs[m["base"]]["obs"])
            names_b = obs[m["base"]]["tables"]["nodes"]
            vb = (b.kind, sorted((names_b[i], f) for i, f in b.failures().items()), len(b.conflicts()))
            for how, cid in m.items():
                if how == "base" or obs[cid]["status"] != "ok":
                    if how != "base" and obs[cid]["status"] != obs[m["base"]]["status"]:
                        out.append({"id": cid, "what": f"rewriting criteria lists ({how}) turned status ok into {obs[cid]['status']}",
                                    "finding": None, "case": gen.strip_struct(bycase[cid])})
                    continue
                r = O.Report(obs[cid]["obs"])
                names_r = obs[cid]["tables"]["nodes"]
                vr = (r.kind, sorted((names_r[i], f) for i, f in r.failures().items()), len(r.conflicts()))
                if vr != vb:
                    out.append({"id": cid, "what": f"verdict changed when criteria lists were rewritten ({how}): {vb} -> {vr}",
                                "finding": None, "case": gen.strip_struct(bycase[cid])})
        return out


def corpus_case(pid, name):
    with open(os.path.join(VERIF, "corpus", pid, name + ".json")) as f:
        return json.load(f)


class C03(ResolveSpec):
    pid = "C03"
    model_imports = MODEL_IMPORTS + ["ShowReq"]
    coq_files = ["Properties/C03.v"]
    theorems = ["C03_order_is_topological", "C03_roots_are_the_top_level_crates", "C03_requirements_solve_the_policy_equations",
                "C03_the_solution_is_unique", "C03_equations_for_any_ordered_graph"]
    level_text = ("Theorems about the model of DepGraph::new + resolve_requirements for EVERY criteria table, dependency graph and "
                  "policy table whose normal/build edges are acyclic and in range (cargo's guarantee; dev edges may cycle): the two DFS "
                  "passes list each crate once and after all its normal/build dependencies (post-order invariant with a gray set, fuel "
                  "shown sufficient by counting unvisited nodes); the roots are exactly the workspace members nothing in the normal build "
                  "graph depends on; the computed demand vector satisfies the documented equations (own policy criteria replace the "
                  "demand; otherwise the union of safe-to-deploy for top-level crates, what each workspace member passes to its "
                  "dev-dependencies one level deep, and what every dependent passes on along normal/build edges — its "
                  "dependency-criteria entry for that dependency, possibly empty, else its own demand), and the equations have exactly "
                  "one solution, so the computed one is the least set satisfying the rules. No side condition is left unproved.")
    level_note = ("Model = coq/DepGraph.v (depgraph_new: two DFS passes, roots, dev-only; resolve_requirements: dev pass + reverse "
                  "topological propagation). The implementation's topo order, roots, dev-only flags and demand vector are compared "
                  "with the model's on every case; an independent fixpoint oracle (tools/oracle.py requirements) recomputes the "
                  "least solution of the documented rules by naive iteration and is compared with the implementation's vector.")
    design_ref = "DESIGN.md §4 C03"
    rule = ("seeded random dependency graphs (1-2 workspace members, 0-2 first-party crates, 1-7 third-party crates, second versions, "
            "git/path forks, normal/build/dev edges incl. edges that are both, dev cycles back into the workspace, shared first-party "
            "crates, diamonds) x dense policy tables (versioned and unversioned; criteria / dev-criteria / dependency-criteria incl. "
            "empty lists; audit-as-crates-io) x 0-4 custom criteria with implications; non-trivial = some crate has a policy entry and "
            "some demand is neither empty nor the default; distinct = distinct (topo, roots, demand vector)")
    projection_doc = "topological order, roots, dev-only flags and the demand vector (criteria bitset per package)"
    assumptions = ["cargo's resolve graph has no cycle of normal/build edges and its dependency ids resolve (hypothesis acyclic_in of the theorems)"]
    quick_n = 250
    thorough_n = 5000

    def model_modules_paths(self):
        return ["Show", "ShowReq"]

    def gen_cases(self, rng, n):
        out = []
        for i in range(n):
            c = gen.gen_req_case(rng, f"g{i}")
            if i % 6 == 5:
                # a crates.io package sharing its name with a path package whose (unversioned) policy says audit-as-crates-io = false
                gen.boost_overlap_unversioned(rng, c)
            out.append(c)
        return out

    def model_expr(self, obs):
        mi = obs["model_input"]
        return f"(sreport (resolve {coq(mi['graph'])} {coq(mi['store'])}) ++ sreq_ok {coq(mi['graph'])})%string"

    def project(self, rep, o, model=None):
        d = {"topo": rep.topo, "roots": rep.roots, "devonly": rep.devonly, "reqs": rep.reqs}
        if model is not None:
            d["side_conditions"] = "ok" if ("(topo_ok)" in model and "(roots_ok)" in model) else model[-24:]
        else:
            d["side_conditions"] = "ok"
        return d

    def nontrivial(self, case, o, rep):
        nodes, _ = O.graph_nodes(o["model_input"]["graph"])
        return any(nd["policy"] for nd in nodes) and len(set(rep.reqs)) > 2

    def classify(self, case, o, rep):
        return "distinct-demands:%d" % min(len(set(rep.reqs)), 5)

    def oracle(self, case, o, rep):
        out = []
        table = O.table_of(o["model_input"]["store"])
        graph = o["model_input"]["graph"]
        R, roots = O.requirements(table, graph)
        names = o["tables"]["nodes"]
        if R is None:
            return ["the policy equations did not converge (cycle of normal/build edges?)"]
        if sorted(roots) != sorted(rep.roots):
            out.append(f"top-level crates are {[names[i] for i in sorted(roots)]}, the implementation treats {[names[i] for i in rep.roots]} as roots")
        for i, r in enumerate(R):
            bits = sum(1 << c for c in r)
            if bits != rep.reqs[i]:
                cn = o["tables"]["criteria"]
                want = [cn[c] for c in sorted(r)]
                got = [cn[c] for c in range(len(cn)) if rep.reqs[i] >> c & 1]
                out.append(f"{names[i]} must meet {want} by the policy rules, the implementation demands {got}")
        return out


class C04(ResolveSpec):
    pid = "C04"
    coq_files = ["Properties/C04.v"]
    theorems = ["C04_conflict_any_audit_or_exemption", "C04_partial_only_grants_or_unpublished_dodge",
                "C04_refuted_wildcard", "C04_refuted_trusted", "C04_refuted_unpublished"]
    level_text = ("Theorem C04_conflict_any_audit_or_exemption: for every graph and store, an audit (own or imported, full or delta) "
                  "or exemption of an in-graph third-party crate that touches a version covered by a violation while claiming a "
                  "violated criterion makes the model's resolve conclude FailForViolationConflict, used or not. The property's main "
                  "clause is FALSE of the faithful model and of the code: C04_refuted_wildcard/_trusted/_unpublished exhibit stores "
                  "that vet successfully although a violation covers the in-graph version for a required criterion (known findings "
                  "F-C04-*, replayed on the implementation every run); C04_partial_only_grants_or_unpublished_dodge proves these three "
                  "record kinds are the ONLY way: a success despite a covering violation must end in a publisher grant or an "
                  "unpublished link.")
    level_note = ("as C01. The oracle checks the property text directly on the implementation and classifies a success-despite-"
                  "violation by the kind of the last link of the reported path; only wildcard/trusted/unpublished last links are known findings.")
    design_ref = "DESIGN.md §4 C04"
    rule = ("as C01 with violation entries (=v, *, <v, >=v; single and multi-criteria lists) in the local file and in imports on "
            "about half of the crates, combined with every certifying record kind; non-trivial = a violation entry covers the "
            "version of an in-graph crate")
    projection_doc = "conclusion kind; the list of violation conflicts per package (kind, sources, indices)"
    gen_kwargs = {"p_violation": 0.5}

    def extra_cases(self):
        return gen.gen_expect_cases(None, "peer-violation-mixed") + gen.gen_expect_cases(None, "violation-deep-implication")

    def gen_cases(self, rng, n):
        cases = []
        for i in range(n):
            if i % 5 == 4:
                # unlocked: live peers; a violation against an audit a peer serves but imports.lock does not hold yet
                c = gen.boost_fresh_peer_vs_violation(rng, gen.gen_unlocked_case(rng, f"g{i}", p_violation=0.3))
                cases.append(c)
                continue
            c = gen.gen_resolve_case(rng, f"g{i}", p_violation=0.5)
            if i % 2:
                gen.boost_grants(rng, c)
            if i % 4 == 2:
                gen.boost_git_violation(rng, c)
            if i % 10 == 1:
                # two exemptions of one crate inside one violation's range; only the SECOND claims the violated criterion
                gen.boost_violation_second_exemption(rng, c)
            cases.append(c)
        return cases

    def findings(self):
        out = []
        for name in ("wildcard", "trusted", "unpublished"):
            out.append((f"F-C04-{name}", corpus_case("C04", f"F-C04-{name}"),
                        lambda o: o["status"] == "ok" and O.Report(o["obs"]).kind == "success"))
        return out

    def project(self, rep, o, model=None):
        return {"kind": rep.kind, "conflicts": sorted((i, json.dumps(c)) for i, c in rep.conflicts().items())}

    def _covering(self, o):
        """[(node index, violated criterion)] for in-graph third-party nodes"""
        store = o["model_input"]["store"]
        nodes, _ = O.graph_nodes(o["model_input"]["graph"])
        out = []
        for i, nd in enumerate(nodes):
            if not nd["third"]:
                continue
            ps = O.pkg_store(store, nd["name"])
            for l in list(ps[0]) + [ps[1]]:
                for a in l:
                    k, ka, crit, importable, fresh = O.audit_fields(a)
                    if k == "KViolation" and nd["version"] in ka[0]:
                        out += [(i, cv) for cv in crit]
        return out

    def nontrivial(self, case, o, rep):
        return bool(self._covering(o))

    def oracle(self, case, o, rep):
        out = []
        store = o["model_input"]["store"]
        table = O.table_of(store)
        nodes, _ = O.graph_nodes(o["model_input"]["graph"])
        names = o["tables"]["nodes"]
        # (a) a covering violation for a criterion implied by a required one: no success
        if rep.kind == "success":
            req = {}
            for (i, c) in required_pairs(rep, o):
                req.setdefault(i, []).append(c)
            for (i, cv) in self._covering(o):
                for r in req.get(i, []):
                    if cv in O.closure(table, r):
                        sr = rep.search(i, r)
                        last = sr[1][0] if sr and sr[0] == "ok" and len(sr) > 1 else "?"
                        fid = {"W": "F-C04-wildcard", "T": "F-C04-trusted", "U": "F-C04-unpublished"}.get(last)
                        out.append({"what": f"vet succeeds although a violation covers {names[i]} for {o['tables']['criteria'][cv]} "
                                            f"(required: {o['tables']['criteria'][r]}); last link of the chain: {last}", "finding": fid})
                        break
        # (b) an audit/exemption touching a violating version and claiming a violated criterion => conflict
        for i, nd in enumerate(nodes):
            if not nd["third"]:
                continue
            ps = O.pkg_store(store, nd["name"])
            audits = [a for l in ps[0] for a in l] + list(ps[1])
            expect = False
            for va in audits:
                k, ka, vcrit, _, _ = O.audit_fields(va)
                if k != "KViolation":
                    continue
                rng_ = set(ka[0])
                vsets = [O.closure(table, c) for c in vcrit]
                for a in audits:
                    k2, ka2, crit2, _, _ = O.audit_fields(a)
                    if k2 == "KViolation":
                        continue
                    cl = O.from_list(table, crit2)
                    if any(vs <= cl for vs in vsets) and (set(ka2) & rng_):
                        expect = True
                for x in ps[7]:
                    xv, xc, _ = O.args(x)
                    if xv in rng_ and any(vs <= O.from_list(table, xc) for vs in vsets):
                        expect = True
            has = rep.kind == "violation" and i in rep.conflicts()
            if expect and not has:
                out.append(f"{names[i]}: an audit or exemption touches a violating version while claiming a violated criterion, but no violation conflict is reported (conclusion {rep.kind})")
            if has and not expect:
                out.append(f"{names[i]}: a violation conflict is reported although no audit or exemption touches a violating version for a violated criterion")
        return out



IMPORT_MODEL = ["Base", "Extracted", "Criteria", "Search", "AuditGraph", "Update", "Show", "ShowUpdate", "Imports", "ShowImports"]


def canon_live(sx):
    e = vetlib.parse_sexp(sx) if isinstance(sx, str) else sx

    def sec(x):
        ps = []
        for p in x[1:]:
            if len(p) > 2:
                ps.append([p[1]] + sorted(json.dumps(i) for i in p[2:]))
        return sorted(ps)
    out = {}
    for x in e[1:]:
        if x[0] == "imports":
            out["imports"] = [[i[1], sec(i[2]), sec(i[3])] for i in x[1:]]
        else:
            out[x[0]] = sec(x)
    return out


class SimpleSpec(Spec):
    """one observation string per case on both sides, compared after canonicalisation"""
    quick_n = 120
    thorough_n = 2500
    model_imports = []

    def gen_cases(self, rng, n):
        raise NotImplementedError

    def model_expr(self, o):
        raise NotImplementedError

    def canon(self, text):
        return text

    def project(self, c):
        return c

    def oracle(self, case, o, c):
        return []

    def post_oracle(self, bycase, obs):
        return []

    def nontrivial(self, case, o, c):
        return True

    def findings(self):
        return []

    def describe(self, case, o):
        return {"id": case["id"], "observation": o.get("obs", "")[:500]}

    def tag(self, case, o, c):
        return o["status"]

    def refused_ok(self, case, o):
        """a store the implementation refuses is not a case for this property"""
        return True

    def run(self, rng, tier, work, model_ok=True, ncases=None, replay=None):
        n = ncases or (self.quick_n if tier == "quick" else self.thorough_n)
        if replay:
            with open(replay) as f:
                r = json.load(f)
            cases = [r.get("case", r)]
            cases[0].setdefault("id", "replay")
        else:
            cases = load_corpus(self.pid) + self.gen_cases(rng, n)
        finds = self.findings()
        for fid, c, _ in finds:
            c["id"] = "finding-" + fid
        cases = cases + [c for _, c, _ in finds]
        cases = [gen.finalize(c) if "store_struct" in c and "store" not in c else c for c in cases]
        obs = vetlib.run_harness([gen.strip_struct(c) for c in cases], os.path.join(work, "impl"))
        exprs = [(cid, self.model_expr(o)) for cid, o in obs.items() if o["status"] == "ok" and "model_input" in o]
        model = vetlib.run_model(exprs, os.path.join(work, "model"), self.model_imports) if model_ok else {}
        res = {"cases": [c["id"] for c in cases], "mismatches": [], "oracle_failures": [], "samples": [],
               "findings_seen": {}, "stats": {}}
        bycase = {c["id"]: c for c in cases}
        status = Counter(o["status"] for o in obs.values())
        compared = 0
        nontrivial = 0
        seen = set()
        dist = Counter()
        for cid, o in obs.items():
            case = bycase[cid]
            if o["status"] == "refused" and self.refused_ok(case, o):
                dist["refused:" + o.get("error_kind", "?")] += 1
                continue
            if o["status"] != "ok":
                res["mismatches"].append({"id": cid, "why": f"implementation {o['status']}: " + str(o.get("panic") or o.get("error"))[:300],
                                          "case": gen.strip_struct(case)})
                continue
            c = self.canon(o["obs"])
            if model_ok and "model_input" in o:
                m = model.get(cid, "MODEL-ERROR: missing")
                if m.startswith("MODEL-ERROR"):
                    res["mismatches"].append({"id": cid, "why": "model evaluation failed: " + m[:300], "case": gen.strip_struct(case)})
                else:
                    compared += 1
                    cm = self.canon(m)
                    if self.project(cm) != self.project(c):
                        res["mismatches"].append({"id": cid, "why": "observation differs", "impl": json.dumps(self.project(c))[:800],
                                                  "model": json.dumps(self.project(cm))[:800], "case": gen.strip_struct(case)})
            for what in self.oracle(case, o, c):
                fid = what.get("finding") if isinstance(what, dict) else None
                text = what["what"] if isinstance(what, dict) else what
                res["oracle_failures"].append({"id": cid, "what": text, "finding": fid, "case": gen.strip_struct(case)})
            if self.nontrivial(case, o, c):
                h = hashlib.sha256(json.dumps(self.project(c), sort_keys=True).encode()).hexdigest()
                if h not in seen:
                    seen.add(h)
                    nontrivial += 1
            dist[self.tag(case, o, c)] += 1
            if len(res["samples"]) < 2 and "-" not in cid:
                res["samples"].append(self.describe(case, o))
        for what in self.post_oracle(bycase, obs):
            res["oracle_failures"].append(what)
        for fid, c, still in finds:
            o = obs.get(c["id"])
            if o and still(o):
                res["findings_seen"][fid] = True
        res["nontrivial"] = nontrivial
        res["stats"] = {"harness_status": dict(status), "compared": compared, "distribution": dict(dist)}
        if res["mismatches"]:
            with open(os.path.join(work, "mismatches.json"), "w") as f:
                json.dump(res["mismatches"][:20], f, indent=1)
        return res


class ImportSpec(SimpleSpec):
    """properties decided on what go_online makes of peers and crates.io"""
    model_imports = IMPORT_MODEL

    def model_modules_paths(self):
        return ["ShowImports"]

    def gen_cases(self, rng, n):
        return [gen.gen_import_case(rng, f"i{i}") for i in range(n)]

    def model_expr(self, o):
        mi = o["model_input"]
        return f"slive (go_online {coq(mi['table'])} {coq(mi['imports'])} {coq(mi['crates'])})"

    def canon(self, text):
        return canon_live(text)

    def tag(self, case, o, c):
        return "imports:%d" % len(c.get("imports", []))

    def describe(self, case, o):
        return {"id": case["id"], "config": case["store"]["config"][:700],
                "peers": {u: t[:500] for u, t in list(case.get("peers", {}).items())[:2]},
                "observation": o["obs"][:500]}


def expected_import(case, o):
    """what each import should contain, from the peers' TOML-level description and the
    property text (importable, exclude, criteria-map), independent of the model"""
    store = case["store_struct"]
    names = o["tables"]["names"]
    crits = o["tables"]["criteria"]
    out = []
    for peer in sorted(store["imports"]):
        imp = store["imports"][peer]
        cmap = imp.get("criteria-map", {})
        excl = set(imp.get("exclude", []))
        audits, wilds = {}, {}
        for u in imp["url"]:
            pf = case["peers_struct"][u]
            for n, l in pf.get("audits", {}).items():
                if n in excl:
                    continue
                for a in l:
                    if a.get("importable") is False:
                        continue
                    lc = [crits.index(c) for c in gen.localise(store, pf.get("criteria", {}), cmap, a["criteria"])]
                    audits.setdefault(names.index(n), []).append((a["kind"], tuple(lc)))
            for n, l in pf.get("wildcard_audits", {}).items():
                if n in excl:
                    continue
                for w in l:
                    lc = [crits.index(c) for c in gen.localise(store, pf.get("criteria", {}), cmap, w["criteria"])]
                    wilds.setdefault(names.index(n), []).append((w["user-id"], tuple(lc)))
        out.append((audits, wilds))
    return out


def observed_import(live):
    out = []
    for imp in live.get("imports", []):
        audits, wilds = {}, {}
        for p in imp[1]:
            for item in p[1:]:
                a = json.loads(item)
                audits.setdefault(int(p[0]), []).append((a[1][0], tuple(int(x) for x in a[2][1:])))
        for p in imp[2]:
            for item in p[1:]:
                w = json.loads(item)
                wilds.setdefault(int(p[0]), []).append((int(w[1]), tuple(int(x) for x in w[4][1:])))
        out.append((audits, wilds))
    return out


class C07(ImportSpec):
    pid = "C07"
    coq_files = ["Properties/C07.v"]
    theorems = ["C07_mapping", "C07_unmapped_contributes_nothing", "C07_builtins_map_to_themselves", "C07_map_overrides",
                "C07_exclude_audits_and_violations", "C07_exclude_wildcard_audits", "C07_imported_entries_come_from_the_peer",
                "C07_multi_url_is_union", "C07_freshness_marking_keeps_entries",
                "C07_multi_url_verdict_is_that_of_the_union", "C07_verdict_is_a_function_of_the_remaining_records",
                "C07_accepted_lock_is_in_step", "C07_stale_excluded_entry_is_refused",
                "C07_violation_without_criteria_conflicts_with_nothing"]
    level_text = ("Theorems about the model of fetch_single_imported_audit / multi-URL aggregation / freshness marking, for every peer "
                  "file, criteria-map and exclude list: C07_mapping (an imported entry denotes locally exactly the union over the "
                  "closure of its criteria in the peer's table of what the criteria-map — consulted first — or the built-in rule maps "
                  "each peer criterion to; unmapped criteria contribute nothing), C07_exclude_* (no audit, violation or wildcard audit "
                  "of an excluded crate enters the import; the wildcard half is proved against a fact re-read from the source), "
                  "C07_imported_entries_come_from_the_peer, C07_multi_url_is_union, C07_freshness_marking_keeps_entries; at the level of the "
                  "verdict (proofs/RecordSets.v): has_errors(resolve) is a function of the SET of records each crate has, so serving "
                  "all sources of a multi-URL import as one merged list gives the verdict of the separate lists, and a skipped entry "
                  "changes the verdict only through its own absence. PARTIAL: the "
                  "tolerant per-entry TOML parsing and the importable filter live in serde/toml code below the model; they are exercised "
                  "by the oracle (junk-injection metamorphic test, importable entries absent) on the implementation.")
    level_note = ("Model input = the peer file after cargo-vet's own foreign_audit_file_to_local (run by the harness), so the parser half "
                  "is tested not proved. Locked-mode exclusion is the imports_lock_outdated clause, exercised in C09/C15 histories.")
    design_ref = "DESIGN.md §4 C07"
    rule = ("seeded graphs with 1-2 imports (1-2 URLs each); peer files with their own criteria tables (0-2 criteria with implications), "
            "entries of every kind incl. non-importable ones and violations, wildcard audits, trusted tables; criteria-maps incl. "
            "overriding built-ins with [] or weaker criteria; exclude lists; imports.lock holding some already-localised entries; a mock "
            "crates.io; each base case is paired with a junk variant (malformed / future-format entries appended to every peer file); "
            "non-trivial = at least one imported entry whose criteria were rewritten through a custom mapping or an exclude that removes something")
    projection_doc = "the complete live import set (per import and crate: audits and wildcard audits with localised criteria and freshness; publisher and unpublished tables), as multisets"
    assumptions = ["mock network / mock crates.io", "peer files are served as generated text and parsed by the real toml + serde code"]

    def run(self, rng, tier, work, model_ok=True, ncases=None, replay=None):
        rkind = None
        if replay:
            try:
                rcase = json.load(open(replay)).get("case") or {}
            except Exception:
                rcase = {}
            rkind = rcase.get("kind")
            rcase.setdefault("id", "replay")
        if rkind in ("validate", "resolve"):
            # a replay of one of the later stages: only that stage is evaluated
            res = {"cases": [rcase["id"]], "mismatches": [], "oracle_failures": [], "samples": [], "findings_seen": {}, "stats": {}}
        else:
            res = super().run(rng, tier, work, model_ok, ncases, replay)
            if replay:
                return res
        # locked mode: entries imports.lock still holds for a crate an import now excludes are never accepted, whichever
        # position the excluding import has among the imports
        r2 = __import__("random").Random(rng.random())
        n = 40 if tier == "quick" else 400
        cases = [rcase] if rkind == "validate" else ([] if rkind == "resolve" else [gen.gen_stale_exclude_case(r2, f"x{i}") for i in range(n)])
        obs = vetlib.run_harness([gen.strip_struct(c) for c in cases], os.path.join(work, "impl-locked")) if cases else {}
        dist = Counter()
        for c in cases:
            o = obs.get(c["id"], {})
            dist[(c["stale_exclude"], (o.get("obs") or o.get("status") or "")[:40])] += 1
            if o.get("status") != "ok":
                res["mismatches"].append({"id": c["id"], "why": f"harness {o.get('status')}: {str(o.get('panic') or o.get('error'))[:200]}", "case": gen.strip_struct(c)})
            elif c["stale_exclude"] and "refused" not in o["obs"]:
                res["oracle_failures"].append({"id": c["id"], "what": "a locked load accepted imports.lock entries of a crate that the import excludes "
                                               f"({o['obs'][:60]})", "finding": None, "case": gen.strip_struct(c)})
            elif not c["stale_exclude"] and "refused" in o["obs"]:
                res["oracle_failures"].append({"id": c["id"], "what": f"a locked load refused a consistent store ({o['obs'][:80]})", "finding": None,
                                               "case": gen.strip_struct(c)})
        res["cases"] += [c["id"] for c in cases]
        res["stats"]["locked_exclude"] = {f"{a}/{b}": n_ for (a, b), n_ in dist.items()}
        # "unmapped peer criteria contribute nothing" at the level of the verdict: a peer's violation naming only such criteria
        # conflicts with nothing (small planted cases whose verdict follows from the property text)
        xs = [rcase] if rkind == "resolve" else ([] if rkind == "validate" else
                                                  gen.gen_expect_cases(None, "unmapped-violation") + gen.gen_expect_cases(None, "builtin-mapped-to-nothing"))
        xobs = vetlib.run_harness([gen.strip_struct(c) for c in xs], os.path.join(work, "impl-expect")) if xs else {}
        for c in xs:
            o = xobs.get(c["id"]) or {}
            ex = c.get("expect") or {"why": "(no expectation recorded)"}
            what = None
            if o.get("status") != "ok":
                what = f"no verdict ({o.get('status')}: {str(o.get('panic') or o.get('error'))[:120]}) although {ex['why']}"
            else:
                r = O.Report(o["obs"])
                nodes_ = o["tables"]["nodes"]
                if ex.get("passes") and r.kind != "success":
                    what = f"the verdict is {r.kind} although {ex['why']}"
                if ex.get("fails") and (r.kind == "success" or (r.kind == "failvet" and ex["fails"] not in {nodes_[i].split(":")[0] for i in r.failures()})):
                    what = f"{ex['fails']} is not reported as failing (verdict {r.kind}) although {ex['why']}"
            if what:
                res["oracle_failures"].append({"id": c["id"], "what": what, "finding": None, "case": gen.strip_struct(c)})
        res["cases"] += [c["id"] for c in xs]
        return res

    def gen_cases(self, rng, n):
        out = []
        for i in range(n):
            base = gen.gen_import_case(rng, f"i{i}")
            out.append(base)
            if i % 2 == 0:
                v = dict(base)
                v["id"] = f"i{i}-junk"
                names = sorted({p["name"] for p in base["graph"]["packages"]})
                v["peers"] = {u: gen.add_junk(rng, t, names) for u, t in base["peers"].items()}
                out.append(v)
        return out

    def nontrivial(self, case, o, live):
        st = case["store_struct"]
        return any(i.get("criteria-map") or i.get("exclude") for i in st["imports"].values()) and bool(live.get("imports"))

    def oracle(self, case, o, live):
        if "peers_struct" not in case or cid_is_variant(case["id"]):
            return []
        out = []
        exp = expected_import(case, o)
        got = observed_import(live)
        names = o["tables"]["names"]
        if len(exp) != len(got):
            return [f"{len(got)} imports observed, {len(exp)} configured"]
        for k, ((ea, ew), (ga, gw)) in enumerate(zip(exp, got)):
            for table, e, g in (("audits", ea, ga), ("wildcard audits", ew, gw)):
                for n in set(e) | set(g):
                    if sorted(e.get(n, [])) != sorted(g.get(n, [])):
                        out.append(f"import #{k}, crate {names[n]}: imported {table} {sorted(g.get(n, []))} but the peer's importable, "
                                   f"non-excluded entries mapped through the criteria-map are {sorted(e.get(n, []))}")
                        break
        return out[:3]

    def post_oracle(self, bycase, obs):
        out = []
        for cid, o in obs.items():
            if cid.endswith("-junk"):
                b = obs.get(cid[:-5])
                if not b:
                    continue
                if b["status"] != o["status"] or (o["status"] == "ok" and canon_live(b["obs"]) != canon_live(o["obs"])):
                    out.append({"id": cid, "what": "appending malformed / future-format entries to a peer file changed how its remaining entries were imported",
                                "finding": None, "case": gen.strip_struct(bycase[cid])})
        return out


def cid_is_variant(cid):
    return cid.endswith("-junk")



def canon_c08(text):
    e = vetlib.parse_sexp(text)
    out = {"third": e[1][1:]}
    for sec in e[2:]:
        for sub in sec[1:]:
            out[sec[0] + "." + sub[0]] = sorted(set(json.dumps(x) for x in sub[1:]))
    return out


class C08(SimpleSpec):
    pid = "C08"
    model_imports = ["Base", "Extracted", "Show", "AuditAs", "ShowAuditAs"]
    coq_files = ["Properties/C08.v"]
    theorems = ["C08_crates_io_always_vetted", "C08_unlocked_run_demands_a_choice", "C08_exempt_only_if",
                "C08_entries_match_packages", "C08_exact_version_chain", "C08_unpublished_choice", "C08_recorded_choice_persists"]
    level_text = ("Theorems about the model of is_third_party / check_audit_as_crates_io / check_crate_policies / "
                  "import_unpublished_entries, for all package lists, policy tables and registry states: crates.io packages are always "
                  "third party; when the unlocked pre-checks pass, every path/git package crates.io seems to know has an explicit "
                  "choice, nobody claims audit-as-crates-io for an unknown crate, every entry names a package of the graph, hence a "
                  "package is exempt only if crates.io has no matching crate or the policy says false; a package audited as crates.io is "
                  "held to the chain rule for its exact version rank (C01); an unpublished version is audited as the nearest earlier, "
                  "else next later, published version; recorded choices persist whatever crates.io serves later.")
    level_note = ("The registry-match bit (same name and matching description or repository) is computed by the real crates_io_info + "
                  "consider_as_same in the harness and is an input of the model; a registry fetch error counts as 'no match' in the code "
                  "(fail-open) and is outside the property's quantifier. The locked-after-publication history is exercised in C09's histories.")
    design_ref = "DESIGN.md §4 C08"
    rule = ("seeded graphs where a quarter of the crates.io packages are turned into path/git packages (several versions of one name "
            "with different sources), random descriptions/repositories; policy tables with audit-as-crates-io true/false/absent, "
            "versioned and unversioned entries, missing versions, stray crates and versions, dependency-criteria; a mock crates.io "
            "that knows 70% of the names with matching / non-matching / absent metadata; non-trivial = at least one pre-check error class fires. "
            "Stage 2 (verdict): generated path crates declared audit-as-crates-io whose version crates.io does not serve, with 1-3 served "
            "versions below and/or above it; the stand-in (nearest earlier, else next later) audited -> must pass unlocked and, on the "
            "recorded choice, --locked even after crates.io has published the exact version; only another served version audited -> must fail")
    projection_doc = "third-party classification of every package; the five error lists of the two pre-checks (as sets of (crate, version))"
    assumptions = ["mock crates.io"]

    def model_modules_paths(self):
        return ["ShowAuditAs", "ShowUpdate"]

    def gen_cases(self, rng, n):
        r2 = __import__("random").Random(rng.random())
        return ([gen.gen_audit_as_overlap_case(r2, f"o{i}") for i in range(max(8, n // 10))] +
                [gen.gen_audit_as_git_case(r2, f"q{i}") for i in range(max(12, n // 8))] +
                [gen.gen_audit_as_case(rng, f"a{i}") for i in range(n)])

    def model_expr(self, o):
        return f"sc08 {coq(o['model_input']['pkgs'])} {coq(o['model_input']['pols'])}"

    def canon(self, text):
        return canon_c08(text)

    def nontrivial(self, case, o, c):
        return any(v for k, v in c.items() if k != "third")

    def tag(self, case, o, c):
        return "errors" if self.nontrivial(case, o, c) else "clean"

    def oracle(self, case, o, c):
        """the property text, from the case description (sources, policies, registry)"""
        out = []
        pkgs = case["graph"]["packages"]
        pol = case["store_struct"]["policy"]
        reg = case["registry"]
        names = o["tables"]["names"]
        vers = o["tables"]["versions"]
        ok = all(not v for k, v in c.items() if k != "third")

        def pol_for(p):
            e = pol.get(p["name"])
            if e is None:
                e = pol.get(f"{p['name']}:{gen.vstr(p)}")
            return e

        def matches(p):
            if p["name"] not in reg["packages"]:
                return False
            m = reg["meta"].get(p["name"], {})
            d = p.get("description", "whatever")
            return (m.get("description") is not None and m.get("description") == d) or \
                   (m.get("repository") is not None and m.get("repository") == p.get("repository"))
        # metadata order == case order of packages
        for i, p in enumerate(pkgs):
            e = pol_for(p) or {}
            aa = e.get("audit-as-crates-io")
            third = c["third"][i] == "1"
            if p["source"] == "registry" and not third:
                out.append(f"{p['name']} {p['version']} comes from crates.io but is not treated as third party")
            if p["source"] != "registry":
                if third != (aa is True):
                    out.append(f"{p['name']} {p['version']} ({p['source']}): third-party={third} but policy audit-as-crates-io={aa}")
                if ok and matches(p) and aa is None:
                    out.append(f"pre-checks pass although {p['name']} matches a crates.io crate and has no audit-as-crates-io choice")
                if ok and aa is True and not matches(p):
                    out.append(f"pre-checks pass although {p['name']} claims audit-as-crates-io = true for something crates.io does not know")
        # the version an unpublished one is audited as (independent of the implementation's own choice):
        # only for versions crates.io does NOT serve; the nearest earlier published version, else the next later
        up = o.get("unpublished")
        if isinstance(up, list):
            rec = {(x[0], x[1]): x[2] for x in up if x[3]}
            for p in pkgs:
                e = pol_for(p) or {}
                if p["source"] != "path" or p.get("workspace") or e.get("audit-as-crates-io") is not True:
                    continue
                served = [r["version"] for r in reg["packages"].get(p["name"], [])]
                if not served or any(x not in gen.VERSIONS for x in served + [p["version"]]):
                    continue
                got = rec.get((p["name"], p["version"]))
                if p["version"] in served:
                    if got is not None:
                        out.append(f"{p['name']} {p['version']} is served by crates.io but was recorded as unpublished, audited as {got}")
                    continue
                me = gen.VERSIONS.index(p["version"])
                below = [x for x in served if gen.VERSIONS.index(x) < me]
                want = max(below, key=gen.VERSIONS.index) if below else min(served, key=gen.VERSIONS.index)
                if got != want:
                    out.append(f"unpublished {p['name']} {p['version']} is audited as {got}; the nearest earlier (else next later) published version is {want}")
        if ok:
            for key, e in pol.items():
                n, _, v = key.partition(":")
                cands = [p for p in pkgs if p["name"] == n and (not v or gen.vstr(p) == v)]
                if not cands:
                    out.append(f"pre-checks pass although policy entry {key!r} matches no package")
                elif e.get("audit-as-crates-io") is not None and not [p for p in cands if p["source"] != "registry"]:
                    out.append(f"pre-checks pass although audit-as-crates-io entry {key!r} matches no path/git package")
        return out

    def run(self, rng, tier, work, model_ok=True, ncases=None, replay=None):
        if replay:
            try:
                rc = json.load(open(replay)).get("case") or {}
            except Exception:
                rc = {}
            if rc.get("kind") == "history":
                return _C08Hist().run(rng, tier, work, model_ok, ncases, replay)
            if rc.get("kind") != "resolve":
                return super().run(rng, tier, work, model_ok, ncases, replay)
            rc.setdefault("id", "replay")
            cases = [rc]
            res = {"cases": [rc["id"]], "mismatches": [], "oracle_failures": [], "samples": [], "findings_seen": {}, "stats": {}}
        else:
            res = super().run(rng, tier, work, model_ok, ncases, replay)
            # stage 2: the VERDICT for an unpublished version — vetted as the nearest earlier (else next later) published
            # version, unlocked and (recorded choice) locked
            rng2 = __import__("random").Random(rng.random())
            cases = [gen.gen_unpublished_verdict_case(rng2, f"u{i}") for i in range(30 if tier == "quick" else 200)]
        obs = vetlib.run_harness([gen.strip_struct(c) for c in cases], os.path.join(work, "impl-unpub"))
        tags = {}
        for c in cases:
            o = obs.get(c["id"]) or {}
            uv = c.get("unpublished_verdict") or {}
            if not uv:
                continue
            tags[uv["variant"]] = tags.get(uv["variant"], 0) + 1
            what = None
            if o.get("status") != "ok":
                what = f"the run did not reach a verdict ({o.get('status')}: {o.get('error_kind') or o.get('error', '')[:80]})"
            else:
                r = O.Report(o["obs"])
                nodes = o["tables"]["nodes"]
                failing = sorted(nodes[i].split(":")[0] for i in r.failures())
                if uv["variant"] == "other":
                    if r.kind == "success" or "fpxxx" not in failing:
                        what = (f"fpxxx {uv['version']} (not on crates.io, which serves {uv['served']}) passes with an audit of "
                                f"{uv['audited']} alone; it is vetted as {uv['stands_in']}")
                elif r.kind != "success":
                    what = (f"fpxxx {uv['version']} (not on crates.io, which serves {uv['served']}) is vetted as {uv['stands_in']}, "
                            f"which is fully audited, yet the {c['mode']} run reports {r.kind} {failing}")
            if what:
                res["oracle_failures"].append({"id": c["id"], "what": what, "finding": None, "case": gen.strip_struct(c) | {"unpublished_verdict": uv}})
        res["stats"]["unpublished_verdict_cases"] = tags
        if not replay:
            # stage 3: "... a choice that is recorded so that --locked runs keep passing": the real check on histories
            hs = _C08Hist()
            r3 = hs.run(__import__("random").Random(rng.random()), tier, os.path.join(work, "hist"), model_ok, ncases=(2 if tier == "quick" else 40))
            res["cases"] += r3["cases"]
            res["mismatches"] += r3["mismatches"]
            res["oracle_failures"] += r3["oracle_failures"]
            res["stats"]["recorded_choice_histories"] = r3.get("stats", {})
        return res



def canon_agg(text):
    e = vetlib.parse_sexp(text)
    body = e[1]
    if body[0] == "err":
        return {"err": sorted(set(json.dumps(x) for x in body[1:]))}
    out = {}
    for sec in body[1:]:
        if sec[0] == "criteria":
            out["criteria"] = sorted(json.dumps(x) for x in sec[1:])
        else:
            out[sec[0]] = sorted([p[1]] + sorted(json.dumps(x) for x in p[2:]) for p in sec[1:] if len(p) > 2)
    return out


class C16(SimpleSpec):
    pid = "C16"
    model_imports = ["Base", "Extracted", "Show", "Imports", "Aggregate", "ShowAggregate"]
    coq_files = ["Properties/C16.v"]
    theorems = ["C16_audits_are_the_tagged_union", "C16_wildcards_are_the_tagged_union", "C16_nothing_non_importable",
                "C16_provenance_tag", "C16_definition_conflict_iff", "C16_errors_persist",
                "C16_importing_the_aggregate_gives_the_same_verdict", "C16_verdict_depends_only_on_the_record_sets",
                "C16_entry_means_the_same_in_the_aggregate", "C16_wildcard_means_the_same_in_the_aggregate",
                "C16_aggregate_defines_every_source_criterion"]
    level_text = ("Theorems about the model of do_aggregate_audits for every finite list of sources: per crate the output audits are "
                  "exactly the importable audits of the sources in source order, each with the source appended to its aggregated-from "
                  "chain (likewise wildcard audits / trusted entries), nothing non-importable gets in; merging a further definition of "
                  "a criterion raises an error exactly when it differs from the first in description, description-url or written "
                  "implies, and errors persist (no output on error). Verdict equivalence (proofs/RecordSets.v, all graphs / tables / "
                  "stores): the resolver's verdict depends only on the set of records each crate has — not on their grouping into "
                  "peers, order, duplicates, freshness marks or provenance tags — hence a store holding all imported entries of a "
                  "crate as ONE peer list (the aggregate) has the verdict of the store with one list per source; and "
                  "(proofs/EmbedProofs.v) when the merged criteria table defines every source criterion as its source does "
                  "(`embeds`, evaluated on the table the REAL aggregate wrote, every case) an entry imported from the aggregate "
                  "under the same criteria-map IS the entry imported from its source. PARTIAL: 'the output is a loadable audits "
                  "file' is exercised on the implementation (re-parse of the written TOML), as is the end-to-end two-stage run.")
    level_note = ("Entries are opaque ids in the model (content is carried through unchanged by the code); the same routine serves "
                  "multi-URL imports (C07_multi_url_is_union).")
    design_ref = "DESIGN.md §4 C16"
    rule = ("1-4 generated source audit files over a shared graph: overlapping crates, shared criteria defined identically or (25%) "
            "differently in description / description-url / implies, own criteria, non-importable entries, existing aggregated-from "
            "chains, wildcard audits and trusted tables; a local project with a criteria-map to evaluate verdict equivalence; "
            "non-trivial = at least two sources with an overlapping crate or criterion")
    projection_doc = "error list (criterion, kind) or the merged file: criteria with provenance, per-crate entries identified by source entry with their aggregated-from chains"
    assumptions = ["source files are parsed by cargo-vet's own tolerant parser before aggregation (as cmd_aggregate does)"]
    quick_n = 100

    def model_modules_paths(self):
        return ["ShowAggregate"]

    def gen_cases(self, rng, n):
        return [gen.gen_aggregate_conflict_case(f"dc{k}", k) for k in range(3)] + [gen.gen_aggregate_case(rng, f"g{i}") for i in range(n)]

    def model_expr(self, o):
        return f"sagg (aggregate {coq(o['model_input']['sources'])})"

    def canon(self, text):
        return canon_agg(text)

    def post_oracle(self, bycase, obs):
        """the hypothesis of C16_entry_means_the_same_in_the_aggregate, on the table the REAL aggregate wrote: every source's
        criteria table embeds into it (each criterion defined there exactly as in its source)"""
        import agg_embed
        exprs = []
        for cid, o in obs.items():
            if o["status"] == "ok" and "model_input" in o:
                exprs += agg_embed.exprs(cid, o)
        if not exprs:
            return []
        work = os.path.join(vetlib.BUILD, "run", "C16-embed")
        model = vetlib.run_model(exprs, vetlib.fresh_dir(work), ["Base", "Extracted", "Show", "Criteria", "EmbedProofs"])
        out = []
        for eid, _ in exprs:
            m = model.get(eid, "MODEL-ERROR")
            cid = eid.split("#")[0]
            if m.startswith("MODEL-ERROR") or " 0" in m:
                out.append({"id": cid, "what": "the criteria table of the aggregate does not define every source criterion as its source does "
                            f"(embeds = {m[:80]})", "finding": None, "case": gen.strip_struct(bycase[cid])})
        self.embed_checked = len(exprs)
        return out

    def nontrivial(self, case, o, c):
        return len(case.get("sources", [])) >= 2

    def tag(self, case, o, c):
        return "err" if "err" in c else "ok:%d" % len(case.get("sources", []))

    def describe(self, case, o):
        return {"id": case["id"], "sources": [{"url": s["url"], "text": s["text"][:400]} for s in case["sources"][:2]],
                "observation": o["obs"][:400]}

    def oracle(self, case, o, c):
        out = []
        structs = case.get("sources_struct")
        if not structs:
            return out
        # fails exactly when two sources define a criterion differently
        defs = {}
        differ = False
        for s in case["sources"]:
            for nm, d in structs[s["url"]].get("criteria", {}).items():
                key = (d.get("description"), d.get("description-url"), tuple(d.get("implies", [])))
                if nm in defs and defs[nm] != key:
                    differ = True
                defs.setdefault(nm, key)
        if differ != ("err" in c):
            out.append(f"aggregation {'failed' if 'err' in c else 'succeeded'} although the sources "
                       f"{'agree on' if not differ else 'disagree about'} every shared criterion")
        if "err" not in c:
            # every importable entry of every source, tagged, and nothing else
            exp = sum(1 for s in case["sources"] for l in structs[s["url"]].get("audits", {}).values()
                      for a in l if a.get("importable") is not False)
            got = sum(len(p) - 1 for p in c.get("audits", []))
            if exp != got:
                out.append(f"the aggregate holds {got} audits, the sources have {exp} importable ones")
            for tbl, key, what in (("wildcard_audits", "wild", "wildcard audits"), ("trusted", "trusted", "trusted entries")):
                exp = sum(len(l) for s in case["sources"] for l in structs[s["url"]].get(tbl, {}).values())
                got = sum(len(p) - 1 for p in c.get(key, []))
                if exp != got:
                    out.append(f"the aggregate holds {got} {what}, the sources have {exp}")
            ex = o.get("extra", {})
            if not ex.get("reloads") or not ex.get("reloads_strict"):
                out.append("the aggregated file does not load back as the same audits file")
            # provenance, read off the text that was written: every criterion and every entry ends its aggregated-from chain
            # with one of the sources of this run — however many sources there are
            urls = {s_["url"] for s_ in case["sources"]}
            untagged = 0
            first = None
            for block in re.split(r"\n\s*\n", ex.get("text") or ""):
                head = block.strip().splitlines()[0] if block.strip() else ""
                if not re.match(r"^(\[\[(audits|wildcard-audits|trusted)\.|\[criteria\.)", head):
                    continue
                m = re.search(r'aggregated-from\s*=\s*(\[.*?\]|"[^"]*")', block, re.S)
                chain = re.findall(r'"([^"]*)"', m.group(1)) if m else []
                if not chain or chain[-1] not in urls:
                    untagged += 1
                    first = first or head
            have = set(re.findall(r"^\[criteria\.\"?([^\]\"]+)\"?\]", ex.get("text") or "", re.M))
            want_c = {nm for s_ in case["sources"] for nm in structs[s_["url"]].get("criteria", {})}
            if not want_c <= have:
                out.append(f"the aggregate does not define {sorted(want_c - have)}, which its sources define (it carries the criteria of ALL its sources, "
                           "used by an entry or not)")
            if untagged:
                out.append(f"{untagged} records of the aggregate (first: {first}) do not end their aggregated-from chain with a source of this run "
                           f"({len(urls)} source{'s' if len(urls) != 1 else ''})")
        return out

    def run(self, rng, tier, work, model_ok=True, ncases=None, replay=None):
        res = super().run(rng, tier, work, model_ok, ncases, replay)
        # the harness identifies every output record by the source its aggregated-from chain ends with; a record without such
        # a tag is not a harness problem but the property failing (provenance lost), with this very case as the input
        keep = []
        for m in res["mismatches"]:
            if "unknown source tag" in m.get("why", ""):
                res["oracle_failures"].append({"id": m["id"], "finding": None, "case": m["case"],
                                               "what": "a record of the aggregate does not end its aggregated-from chain with any of the "
                                                       f"{len(m['case'].get('sources', []))} source(s) it was aggregated from"})
            else:
                keep.append(m)
        res["mismatches"] = keep
        if replay:
            return res
        # stage 2: verdict of "import the aggregate" vs "import every source separately"
        cases = []
        n = ncases or (self.quick_n if tier == "quick" else self.thorough_n)
        rng2 = __import__("random").Random(rng.random())
        base = self.gen_cases(rng2, max(10, n // 2))
        base = [gen.strip_struct(b) | {"_full": b} for b in base]
        obs1 = vetlib.run_harness([{k: v for k, v in b.items() if k != "_full"} for b in base], os.path.join(work, "impl2a"))
        pairs = []
        for b in base:
            o = obs1[b["id"]]
            if o["status"] != "ok" or "text" not in o.get("extra", {}):
                continue
            full = b["_full"]
            urls = [s["url"] for s in full["sources"]]
            for variant in ("agg", "sep", "multi"):
                st = __import__("copy").deepcopy(full["local_struct"])
                peers = {s["url"]: s["text"] for s in full["sources"]}
                if variant == "agg":
                    st["imports"] = {"imp": {"url": ["https://agg.example/audits.toml"], "criteria-map": full["cmap"]}}
                    peers["https://agg.example/audits.toml"] = o["extra"]["text"]
                elif variant == "sep":
                    st["imports"] = {f"imp{k}": {"url": [u], "criteria-map": full["cmap"]} for k, u in enumerate(urls)}
                else:
                    st["imports"] = {"imp": {"url": urls, "criteria-map": full["cmap"]}}
                for imp in st["imports"].values():
                    if not imp["criteria-map"]:
                        del imp["criteria-map"]
                cases.append({"id": f"{b['id']}-{variant}", "kind": "resolve", "graph": full["graph"], "mode": "unlocked",
                              "store": vetlib.render_store(st), "peers": peers, "registry": full["registry"],
                              "allow_criteria_changes": True})
            pairs.append(b["id"])
        obs2 = vetlib.run_harness(cases, os.path.join(work, "impl2b")) if cases else {}
        checked = 0
        for pid_ in pairs:
            vs = {}
            for variant in ("agg", "sep", "multi"):
                o = obs2.get(f"{pid_}-{variant}")
                if not o or o["status"] != "ok":
                    vs[variant] = (o or {}).get("status"), (o or {}).get("error_kind")
                    continue
                r = O.Report(o["obs"])
                nodes = o["tables"]["nodes"]
                vs[variant] = (r.kind, tuple(sorted((nodes[i], f) for i, f in r.failures().items())), len(r.conflicts()))
            checked += 1
            if len(set(vs.values())) != 1:
                case = [c for c in cases if c["id"] == f"{pid_}-agg"][0]
                res["oracle_failures"].append({"id": f"{pid_}-equiv", "what": f"importing the aggregate, every source separately, and one multi-URL import give different verdicts: {vs}",
                                               "finding": None, "case": case})
        res["stats"]["equivalence_triples_checked"] = checked
        return res



class C17(SimpleSpec):
    pid = "C17"
    model_imports = ["Base", "Extracted", "Criteria", "Search", "AuditGraph", "DepGraph", "Resolve", "Show", "Suggest", "ShowSuggest"]
    coq_files = ["Properties/C17.v"]
    theorems = ["C17_suggested_pair_is_common", "C17_candidate_heals", "C17_dedup_merges_criteria", "C17_dedup_keeps_all_criteria",
                "C17_certifying_every_suggestion_makes_vet_pass", "C17_preselected_criteria_connect",
                "C17_certify_guess_connects", "C17_certify_guess_first_look_wins"]
    level_text = ("Theorems about the model of suggest_delta / compute_suggest: for every failing crate the (from, to) pair chosen lies "
                  "in the reachable-from-root resp. reachable-from-target set of EVERY failed criterion (for any diffstat oracle), and "
                  "certifying such a pair for a list carrying a failed criterion makes the crate certified for it (C17_candidate_heals, "
                  "through the exact reachable sets of the failed search); de-duplication of suggestions unions the criteria of merged "
                  "items (fact re-read from the source; the original defect F-C17 is fixed). The whole statement "
                  "(C17_certifying_every_suggestion_makes_vet_pass, proofs/SuggestHeal.v): for every graph, every store with an acyclic "
                  "criteria table and every diffstat oracle, if the report is FailForVet and every failing crate got a proposal, then "
                  "after certifying EVERY item of compute_suggest (through sort + de-duplication) for the minimal names of its "
                  "criteria, resolve has no errors unless a new audit collides with a violation entry. The same run is also made on "
                  "the implementation (suggestions applied as audits, store re-resolved).")
    level_note = ("Diffstats are the mock cache's (|to.major^2 - from.major^2|) and are an oracle of the model; git-revision targets "
                  "(the extra delta of suggest_delta) are outside the model and only covered by the apply-and-recheck oracle; registry "
                  "(import) suggestions and trust hints are not modelled.")
    design_ref = "DESIGN.md §4 C17"
    rule = ("failing stores from the C01 generators, locked and unlocked (with a mock crates.io index deciding which versions have "
            "sources): several failing criteria per crate with different reachable sets, two versions of one crate, deltas in both "
            "directions; non-trivial = at least one suggestion is made")
    projection_doc = "the resolve report and the ordered suggestion list (package, from, to, criteria bitset, diffstat count)"
    assumptions = ["mock cache diffstats", "mock crates.io index"]
    quick_n = 150

    def model_modules_paths(self):
        return ["ShowSuggest", "ShowUpdate", "ShowUser", "ShowCollapse", "ShowGuess"]

    def gen_cases(self, rng, n):
        out = []
        for i in range(n):
            c = gen.gen_unlocked_case(rng, f"s{i}") if i % 2 else gen.finalize(gen.gen_resolve_case(rng, f"s{i}"))
            c["kind"] = "suggest"
            c["suggest_network"] = c.get("mode") == "unlocked"
            c.setdefault("registry", {"users": [], "packages": {}, "meta": {}})
            if c["suggest_network"] and i % 4 == 1:
                # crates.io has YANKED some of the versions in use (they are still published and downloadable)
                inuse = {(p["name"], p["version"]) for p in c["graph"]["packages"] if p["source"] == "registry"}
                for n_, l_ in c["registry"]["packages"].items():
                    for v_ in l_:
                        if (n_, v_["version"]) in inuse and rng.random() < 0.7:
                            v_["yanked"] = True
            out.append(c)
        return out

    def findings(self):
        return []

    def model_expr(self, o):
        mi = o["model_input"]
        if any("@git:" in n for n in o["tables"]["nodes"]):
            return None
        return f"sboth {coq(mi['majors'])} {coq(mi['git'])} {coq(mi['known'])} (resolve {coq(mi['graph'])} {coq(mi['store'])})"

    def nontrivial(self, case, o, c):
        return "(s " in o["obs"]

    def tag(self, case, o, c):
        return "suggestions" if "(s " in o["obs"] else "none"

    def run(self, rng, tier, work, model_ok=True, ncases=None, replay=None):
        # cases with git-revision nodes are outside the model: drop their model expression
        if replay:
            with open(replay) as f:
                r0 = json.load(f)
            if (r0.get("case", r0)).get("kind") == "history":
                return _C17Hist().run(rng, tier, work, model_ok, ncases, replay)
        orig = self.model_expr
        res = None
        try:
            res = self._run(rng, tier, work, model_ok, ncases, replay)
        finally:
            self.model_expr = orig
        if replay or res is None:
            return res
        # the last clause of the property — "the criteria certify pre-selects for a given delta are ones for which that delta
        # connects an audited version to a needed one" — on the real command: `certify` without --criteria, ENTER at the prompt
        hs = _C17Hist()
        r2 = hs.run(__import__("random").Random(rng.random()), tier, os.path.join(work, "hist"), model_ok, ncases=(4 if tier == "quick" else 60))
        res["cases"] += r2["cases"]
        res["mismatches"] += r2["mismatches"]
        res["oracle_failures"] += r2["oracle_failures"]
        res["stats"]["certify_guess_histories"] = r2.get("stats", {})
        return res

    def _run(self, rng, tier, work, model_ok, ncases, replay):
        n = ncases or (self.quick_n if tier == "quick" else self.thorough_n)
        if replay:
            with open(replay) as f:
                r = json.load(f)
            cases = [r.get("case", r)]
            cases[0].setdefault("id", "replay")
        else:
            cases = load_corpus(self.pid) + self.gen_cases(rng, n)
        cases = [gen.finalize(c) if "store_struct" in c and "store" not in c else c for c in cases]
        obs = vetlib.run_harness([gen.strip_struct(c) for c in cases], os.path.join(work, "impl"))
        exprs = []
        for cid, o in obs.items():
            if o["status"] == "ok":
                e = self.model_expr(o)
                if e:
                    exprs.append((cid, e))
        model = vetlib.run_model(exprs, os.path.join(work, "model"), self.model_imports) if model_ok else {}
        res = {"cases": [c["id"] for c in cases], "mismatches": [], "oracle_failures": [], "samples": [],
               "findings_seen": {}, "stats": {}}
        bycase = {c["id"]: c for c in cases}
        compared = 0
        nontrivial = 0
        seen = set()
        stage2 = []
        for cid, o in obs.items():
            case = bycase[cid]
            if o["status"] == "refused":
                continue
            if o["status"] != "ok":
                res["mismatches"].append({"id": cid, "why": f"implementation {o['status']}: " + str(o.get("panic") or o.get("error"))[:300],
                                          "case": gen.strip_struct(case)})
                continue
            if cid in model:
                m = model[cid]
                compared += 1
                if m != o["obs"]:
                    i, j = o["obs"].find("(suggest"), m.find("(suggest")
                    res["mismatches"].append({"id": cid, "why": "suggestions or report differ" if not m.startswith("MODEL-ERROR") else m[:200],
                                              "impl": o["obs"][i:i + 500], "model": m[j:j + 500], "case": gen.strip_struct(case)})
            e = vetlib.parse_sexp(o["obs"])
            rep = O.Report(e[1])
            sug = e[2]
            if sug[0] == "suggest" and len(sug) > 1:
                if o["obs"] not in seen:
                    seen.add(o["obs"])
                    nontrivial += 1
                # direct oracle 1: every suggestion is for a failing crate and names exactly its missing criteria
                fails = rep.failures()
                names = o["tables"]["nodes"]
                bypkgname = {}
                for i, f in fails.items():
                    bypkgname.setdefault(names[i].split(":")[0], 0)
                    bypkgname[names[i].split(":")[0]] |= f
                for it in sug[1:]:
                    pkg, crit = int(it[1]), int(it[4])
                    if pkg not in fails:
                        res["oracle_failures"].append({"id": cid, "what": f"an audit is suggested for {names[pkg]}, which does not fail", "finding": None,
                                                       "case": gen.strip_struct(case)})
                    elif crit & ~bypkgname[names[pkg].split(":")[0]]:
                        res["oracle_failures"].append({"id": cid, "what": f"the audit suggested for {names[pkg]} names criteria the crate is not missing", "finding": None,
                                                       "case": gen.strip_struct(case)})
                # direct oracle 2 (stage 2): certify every suggestion, vet must pass
                if "store_struct" in case:
                    import copy
                    st = copy.deepcopy(case["store_struct"])
                    table = O.table_of(o["model_input"]["store"])
                    vers = o["tables"]["versions"]
                    crit_names = o["tables"]["criteria"]
                    for k, it in enumerate(sug[1:]):
                        pkg, frm, to, crit = int(it[1]), it[2], int(it[3]), int(it[4])
                        cl = [crit_names[c] for c in O.minimal(table, O.unbits(crit))]
                        name = names[pkg].split(":")[0]
                        ent = {"criteria": cl, "notes": f"applied suggestion {k}"}
                        if frm == "n":
                            ent.update(kind="full", version=vers[to])
                        else:
                            ent.update(kind="delta", to=vers[to])
                            ent["from"] = vers[int(frm)]
                        st["audits"].setdefault(name, []).append(ent)
                    c2 = dict(case)
                    c2["id"] = cid + "-applied"
                    c2["kind"] = "resolve"
                    c2["store_struct"] = st
                    stage2.append(gen.finalize(c2))
            # guesses for certify
            if len(res["samples"]) < 2 and "(s " in o["obs"]:
                res["samples"].append({"id": cid, "audits": case["store"]["audits"][:500], "suggestions": o["obs"][o["obs"].find("(suggest"):][:300]})
        if stage2:
            obs2 = vetlib.run_harness([gen.strip_struct(c) for c in stage2], os.path.join(work, "impl2"))
            healed = 0
            for c2 in stage2:
                o2 = obs2[c2["id"]]
                if o2["status"] != "ok":
                    res["oracle_failures"].append({"id": c2["id"], "what": f"after certifying the suggestions the store is {o2['status']}: {str(o2.get('error') or o2.get('panic'))[:200]}",
                                                   "finding": None, "case": gen.strip_struct(c2)})
                    continue
                k = O.Report(o2["obs"]).kind
                if k == "failvet":
                    res["oracle_failures"].append({"id": c2["id"], "what": "after certifying every suggested audit for its suggested criteria vet still fails for missing audits",
                                                   "finding": None, "case": gen.strip_struct(bycase[c2["id"][:-8]])})
                else:
                    healed += 1
            res["stats"]["suggestion_sets_applied"] = len(stage2)
            res["stats"]["healed_or_violation"] = healed
        res["nontrivial"] = nontrivial
        res["stats"].update({"harness_status": dict(Counter(o["status"] for o in obs.values())), "compared": compared})
        if res["mismatches"]:
            with open(os.path.join(work, "mismatches.json"), "w") as f:
                json.dump(res["mismatches"][:20], f, indent=1)
        return res



# (the five table findings F-C15-* were repaired by /repo commit d01b4db; their witnesses stay in corpus/C15 as
# regression cases and are expected to be REFUSED now)
C15_FINDINGS = {}


def classify_panic(case, detail):
    """a known finding is identified by the panic site (CriteriaMapper::new) AND the table
    that carries the defect; the local table takes precedence (it is built first)"""
    kinds = [f["kind"] for f in case.get("faults", [])]
    for fid in C15_FINDINGS:
        msg, fault = C15_FINDINGS[fid]
        if msg in detail and "src/criteria.rs" in detail and fault in kinds:
            if fid == "F-C15-table-cycle" and "loop-a" not in detail and "loop-b" not in detail:
                continue
            if fid == "F-C15-peer-table-cycle" and "pl-a" not in detail and "pl-b" not in detail:
                continue
            return fid
    return None


def dangling_present(case, site):
    """is the injected dangling reference still in the files as finally generated?  A later injected fault may have
    deleted the carrying definition or truncated the file before it."""
    where = {"SExemption": "config", "SPolicy": "config", "SPolicyDev": "config", "SPolicyDep": "config", "SCriteriaMap": "config",
             "SImplies": "audits", "SAudit": "audits", "SWildcard": "audits", "STrusted": "audits",
             "SLockAudit": "imports", "SLockWildcard": "imports"}.get(site)
    text = (case.get("store") or {}).get(where, "") if where else ""
    if where and "ghost-crit" not in text:
        return False
    if site != "SImplies":
        return True
    try:
        import tomllib
        crit = tomllib.loads(case["store"]["audits"]).get("criteria", {})
    except Exception:
        return True
    known = set(crit) | set(gen.BUILTINS)
    for v in crit.values():
        imp = v.get("implies", []) if isinstance(v, dict) else []
        imp = [imp] if isinstance(imp, str) else imp
        if any(x not in known for x in imp):
            return True
    return False


def peer_nd_present(case, url):
    """the served peer file (as finally generated) still defines `peer-nd` without description, and the configuration maps it"""
    text = (case.get("peers") or {}).get(url, "")
    cfg = (case.get("store") or {}).get("config", "")
    m = re.search(r"\[criteria\.peer-nd\]\n((?:[^\[\n][^\n]*\n)*)", text)
    return bool(m) and "description" not in m.group(1) and "peer-nd" in cfg


def table_fault_present(case, kind):
    """is the injected table fault still in the store as generated?  (a later fault may have deleted the definition)"""
    crit = (case.get("store_struct") or {}).get("criteria")
    if crit is None:
        try:
            import tomllib
            crit = tomllib.loads(case["store"]["audits"]).get("criteria", {})
            crit = {k: {"implies": ([v["implies"]] if isinstance(v.get("implies"), str) else v.get("implies", []))}
                    for k, v in crit.items() if isinstance(v, dict)}
        except Exception:
            return True
    if kind == "table-shadow":
        return any(b in crit for b in gen.BUILTINS)
    # cycle among the local definitions
    def reach(a, seen):
        for b in crit.get(a, {}).get("implies", []) or []:
            if b in seen:
                return True
            if b in crit and reach(b, seen | {b}):
                return True
        return False
    return any(reach(a, {a}) for a in crit)


class C15(SimpleSpec):
    pid = "C15"
    model_imports = ["Base", "Extracted", "Criteria", "Validate", "Imports", "LockSync", "ValidateLock"]
    coq_files = ["Properties/C15.v"]
    theorems = ["C15_undefined_reference_refused", "C15_every_indexed_site_is_checked", "C15_validated_store_does_not_index_unknown",
                "C15_no_crash", "C15_self_implication_refused", "C15_cycle_refused", "C15_builtin_redefined_refused",
                "C15_too_many_criteria_refused", "C15_peer_cycle_refused", "C15_wildcard_end_cap",
                "C15_no_crash_with_lock_test", "C15_lock_test_never_panics"]
    level_text = ("Theorems about the model of Store::validate's criteria checks and of every place a criteria name is indexed into the "
                  "mapper: a reference to an undefined criterion at any checked site is refused; every site that is indexed on the way "
                  "to a verdict (locked and unlocked) is checked — the list of checked sites is re-read from Store::validate by the "
                  "translator on every run, so removing a loop breaks the proof —; hence a validated store never reaches an index panic; "
                  "own wildcard audits ending after the 12-month cap are refused; C15_no_crash (unconditional): for every store and every "
                  "set of peer files the outcome is never a crash, because Store::validate also refuses an unusable criteria table "
                  "(built-in redefined, implication cycle, more than 64 criteria) and a peer's unusable table is refused before a mapper "
                  "is built from it — both facts re-read from the source; they were crashes (five findings) until the `fix:` commit "
                  "d01b4db. Text-level faults (truncation, wrong types, unknown fields) are below the model (toml/serde) and only exercised.")
    level_note = ("Three crash sites of the unchanged tree (unknown criteria in trusted entries, criteria-map values, locked imports.lock) "
                  "and five more (unusable local / peer criteria tables) were repaired by `fix:` commits and are now part of the proved statement.")
    design_ref = "DESIGN.md §4 C15"
    rule = ("well-formed generated stores with peers, subjected to 0-3 structural edits: a dangling criteria reference at each of the 11 "
            "reference sites, deleting a referenced definition, implication self-loop / 2-cycle, a criterion named like a built-in, "
            "61-70 extra criteria, a wildcard audit ending around the 12-month cap, peer files with cyclic / shadowing tables or unknown "
            "criteria, and text-level faults (truncation, unknown field, wrong type, junk peer entries); locked and unlocked; "
            "non-trivial = at least one fault injected")
    projection_doc = "outcome class: refused (criteria / end-date diagnostics) | panics | proceeds to a verdict"
    assumptions = ["mock network for peers", "today = 2023-01-01"]
    quick_n = 300

    def model_modules_paths(self):
        return ["ValidateLock"]

    def gen_cases(self, rng, n):
        out = []
        for i in range(n):
            c = gen.gen_validate_case(rng, f"v{i}")
            if i % 6 == 1 and not c.get("faults"):
                # an implication cycle first reached from a criterion outside it (local or peer table)
                c = gen.boost_cycle_behind_entry(rng, c)
            elif i % 6 == 4 and not c.get("faults"):
                # an EXPIRED own wildcard audit naming an undefined criterion
                c = gen.boost_expired_wildcard_dangling(rng, c)
            elif i % 3 == 2 and not c.get("faults"):
                # a peer entry mixing known and unknown criteria (unlocked): stripped, not crashed on, not counted
                c = gen.boost_peer_mixed_unknown(rng, c)
            out.append(c)
        return out

    def findings(self):
        out = []
        for fid in C15_FINDINGS:
            out.append((fid, corpus_case("C15", fid), lambda o: o.get("obs") == "(outcome panics)"))
        return out

    def model_expr(self, o):
        mi = o["model_input"]
        b = lambda v: "true" if v else "false"  # noqa
        return (f"match load_outcome_lock {b(mi['locked'])} {b(mi['shadows'])} {coq(mi['table'])} {coq(mi['max_end'])} {coq(mi['ends'])} "
                f"{coq(mi['refs'])} {coq(mi.get('peers', []))} {coq(mi.get('imports_cfg', []))} {coq(mi.get('lock_sections', []))} with Refused => \"refused\" | Panics => \"panics\" | Proceeds => \"proceeds\" end")

    def canon(self, text):
        if text.startswith("(outcome"):
            parts = text[1:-1].split()
            kind = parts[1]
            if kind == "refused":
                kinds = parts[2:]
                if not ("InvalidCriteria" in kinds or "BadWildcardEndDate" in kinds or "ImportsLockOutdated" in kinds):
                    return "refused-other"
            return kind
        return text

    def project(self, c):
        return c

    def run(self, rng, tier, work, model_ok=True, ncases=None, replay=None):
        rc = None
        if replay:
            try:
                rc = json.load(open(replay)).get("case") or {}
            except Exception:
                rc = {}
        if rc is not None and rc.get("kind") == "resolve":
            rc.setdefault("id", "replay")
            res = {"cases": [rc["id"]], "mismatches": [], "oracle_failures": [], "samples": [], "findings_seen": {}, "stats": {}}
            jcases = [rc]
        else:
            res = self.run_validate(rng, tier, work, model_ok, ncases, replay)
            if replay:
                return res
            # stage 2: "never a success that the well-formed part of the data does not justify" — a crate with no record at all
            # and a peer serving only ill-formed / non-importable entries for it: the verdict must still name the crate
            r2 = __import__("random").Random(rng.random())
            jcases = [c for c in (gen.gen_junk_verdict_case(r2, f"j{i}") for i in range(30 if tier == "quick" else 300)) if c]
        obs = vetlib.run_harness([gen.strip_struct(c) for c in jcases], os.path.join(work, "impl-junk"))
        tags = Counter()
        for c in jcases:
            o = obs.get(c["id"]) or {}
            what = None
            if o.get("status") == "panic" or o.get("panic"):
                what = f"cargo-vet crashed on a peer's ill-formed entries: {str(o.get('panic'))[:160]}"
            elif o.get("status") == "ok":
                r = O.Report(o["obs"])
                nodes = o["tables"]["nodes"]
                failing = sorted(nodes[i].split(":")[0] for i in r.failures())
                # is anything required of the crate at all?  (a dependent may waive it: `dependency-criteria = { x = [] }`)
                try:
                    mi_ = o["model_input"]
                    gn_, _ = O.graph_nodes(mi_["graph"])
                    R_, _ = O.requirements(O.table_of(mi_["store"]), mi_["graph"])
                    names_ = o["tables"]["names"]
                    demanded = any(gn_[i]["third"] and names_[gn_[i]["name"]] == c.get("junk_for") and R_[i] for i in range(len(gn_)))
                except Exception:
                    demanded = False
                if not demanded:
                    tags["nothing-required"] += 1
                    continue
                tags[r.kind] += 1
                if r.kind == "success" or (r.kind == "failvet" and c.get("junk_for") not in failing):
                    what = (f"{c.get('junk_for')} has no record at all and the peer serves only ill-formed or non-importable entries for it "
                            f"({'; '.join(j.splitlines()[-1] for j in c.get('junk', []))}), yet the verdict is {r.kind} {failing}")
            else:
                tags[str(o.get("status"))] += 1
            if what:
                res["oracle_failures"].append({"id": c["id"], "what": what, "finding": None,
                                               "case": gen.strip_struct(c) | {"junk_for": c.get("junk_for"), "junk": c.get("junk")}})
        res["cases"] += [c["id"] for c in jcases]
        res["stats"]["junk_verdict_cases"] = dict(tags)
        return res

    def run_validate(self, rng, tier, work, model_ok=True, ncases=None, replay=None):
        res = super().run(rng, tier, work, model_ok, ncases, replay)
        # refusals for reasons outside the model (TOML parse, lock freshness, formatting, peer
        # diagnostics) and panics caused by a PEER's table are not predictions of the model
        keep = []
        for m in res["mismatches"]:
            if m.get("why") == "observation differs":
                impl = json.loads(m["impl"])
                faults = [f["kind"] for f in m["case"].get("faults", [])]
                if impl == "refused-other":
                    continue
                if impl == "panics" and any(k.startswith("peer-table") for k in faults):
                    continue
            keep.append(m)
        res["mismatches"] = keep
        return res

    def nontrivial(self, case, o, c):
        return bool(case.get("faults"))

    def tag(self, case, o, c):
        return c

    def describe(self, case, o):
        return {"id": case["id"], "mode": case.get("mode"), "faults": case.get("faults"), "observation": o.get("obs"),
                "audits": case["store"]["audits"][:300]}

    def oracle(self, case, o, c):
        out = []
        detail = o.get("detail", "") or o.get("panic", "")
        faults = case.get("faults", [])
        if c == "panics":
            fid = classify_panic(case, detail)
            out.append({"what": f"cargo-vet crashed instead of refusing or skipping: {detail[:160]} (faults: {[f['kind'] for f in faults]})",
                        "finding": fid})
        # the same store through the real `cargo vet check` (Store::acquire -> go_online -> validate as the commands call them)
        real = o.get("real_check")
        if isinstance(real, str):
            if real.startswith("panic:") and c != "panics":
                out.append(f"the real `cargo vet check{' --locked' if case.get('mode') == 'locked' else ''}` crashed on a store the loader "
                           f"refuses or accepts without crashing: {real[:200]} (faults: {[f['kind'] for f in faults]})")
            if c == "refused" and not (o.get("obs", "").startswith("(outcome refused online")) and real == "ok":
                out.append(f"the loader refuses this store ({o.get('obs')}) but the real `cargo vet check` went ahead and succeeded")
        locked = case.get("mode") == "locked"
        used = lambda s: (not locked) if s == "SCriteriaMap" else (locked if s in ("SLockAudit", "SLockWildcard") else True)  # noqa
        if c == "proceeds":
            for f in faults:
                if f["kind"] == "dangling" and used(f["site"]) and dangling_present(case, f["site"]):
                    out.append(f"a reference to an undefined criterion ({f['site']}) was not refused and reached the resolver")
                if f["kind"] in ("table-cycle", "table-shadow") and table_fault_present(case, f["kind"]):
                    out.append(f"an ill-formed criteria table ({f['kind']}) was accepted")
                if f["kind"] == "peer-criterion-no-description" and not locked and peer_nd_present(case, f["url"]):
                    out.append("a peer criterion that the import maps but that has neither a description nor a description-url was accepted")
        return out



def norm_values(v):
    """a store value as multisets: lists of entries sorted, empty tables dropped"""
    if isinstance(v, dict):
        out = {}
        for k, x in v.items():
            n = norm_values(x)
            if n in ({}, [], None):
                continue
            out[k] = n
        return out
    if isinstance(v, list):
        l = [norm_values(x) for x in v]
        if all(isinstance(x, dict) for x in l):
            return sorted(l, key=lambda x: json.dumps(x, sort_keys=True))
        return l
    return v


SERDE_KEYS = {"who": "who", "criteria": "criteria", "version": "version", "delta": "delta", "violation": "violation",
              "importable": "importable", "notes": "notes", "aggregated-from": "aggregated-from", "suggest": "suggest",
              "user-id": "user-id", "start": "start", "end": "end", "renew": "renew", "description": "description",
              "description-url": "description-url", "implies": "implies"}


class C14(Spec):
    pid = "C14"
    coq_files = ["Properties/C14.v"]
    theorems = ["C14_string_or_vec_roundtrip", "C14_audit_entry_roundtrip", "C14_exemption_roundtrip",
                "C14_wildcard_entry_roundtrip", "C14_criteria_entry_roundtrip", "C14_policy_entry_roundtrip", "C14_tidy_is_canonical", "C14_policy_key_roundtrip", "C14_policy_keys_never_collide"]
    level_text = ("Theorems about the model of cargo-vet's own (de)serialisation layer over an abstract TOML value, for ALL entries: "
                  "string_or_vec, the AuditEntry<->AuditEntryAll conversion (kind fields, importable default), exemptions (suggest "
                  "default), wildcard entries (renew), criteria entries (skip-if-empty lists, optional fields) decode what they encode; "
                  "tidy is idempotent for any total transitive order. PARTIAL: the text level (toml_edit printing, toml parsing, the "
                  "layout pass, the user-id comment) is library code below the model; it is exercised by write -> read with the locked "
                  "formatting self-check -> write on generated stores full of nasty text, comparing values (as multisets) and bytes.")
    level_note = ("The model's encoding is compared, entry by entry, with what the real Serialize impls produce (serde_json dump of every "
                  "entry of every generated store). Two defects of the unchanged tree were repaired by `fix:` commits (newline in a "
                  "publisher name escaping the comment; order-dependent choice of the comment).")
    design_ref = "DESIGN.md §4 C14"
    rule = ("generated stores with every record kind, optional fields present/absent, empty / singleton / long lists (wrapping "
            "thresholds), versioned and unversioned policies, git-revision versions, aggregated-from chains, renew flags, and free text "
            "from a nasty-string stream (multi-line, quotes, triple quotes, backslashes, unicode, control characters, '#', ']', 130-char "
            "lines) in notes, who, descriptions and publisher names; non-trivial = the store has at least one nasty string")
    projection_doc = "per entry: the table of (key, value) pairs produced by the real Serialize impl vs the model's enc_* function"
    assumptions = ["strings, versions and dates are opaque tokens in the model"]
    quick_n = 150
    thorough_n = 2000

    def model_modules_paths(self):
        return ["ShowSerde", "ShowSerdePolicy"]

    def gen_cases(self, rng, n):
        return [gen.gen_serde_case(rng, f"d{i}") for i in range(n)]

    def run(self, rng, tier, work, model_ok=True, ncases=None, replay=None):
        n = ncases or (self.quick_n if tier == "quick" else self.thorough_n)
        if replay:
            with open(replay) as f:
                r = json.load(f)
            cases = [r.get("case", r)]
            cases[0].setdefault("id", "replay")
        else:
            cases = load_corpus(self.pid) + self.gen_cases(rng, n)
        obs = vetlib.run_harness([gen.strip_struct(c) for c in cases], os.path.join(work, "impl"))
        res = {"cases": [c["id"] for c in cases], "mismatches": [], "oracle_failures": [], "samples": [],
               "findings_seen": {}, "stats": {}}
        bycase = {c["id"]: c for c in cases}
        exprs = []
        expect = {}
        policy_expect = {}
        nontrivial = 0
        dist = Counter()
        for cid, o in obs.items():
            case = bycase[cid]
            if o["status"] == "refused":
                dist["refused:" + o.get("error_kind", "?")] += 1
                continue
            if o["status"] != "ok":
                res["mismatches"].append({"id": cid, "why": f"implementation {o['status']}: " + str(o.get("panic") or o.get("error"))[:300],
                                          "case": gen.strip_struct(case)})
                continue
            e = vetlib.parse_sexp(o["obs"])
            flags = {x[0]: x[1] for x in e[1:]}
            dist[o["obs"][:60]] += 1
            # ---- direct oracle: the round trip itself
            if flags["parse_back"] != "ok":
                res["oracle_failures"].append({"id": cid, "what": f"a store cargo-vet wrote cannot be read back: {flags['parse_back']}", "finding": None,
                                               "case": gen.strip_struct(case)})
            else:
                if norm_values(o["values"]) != norm_values(o["values_reread"]):
                    res["oracle_failures"].append({"id": cid, "what": "the store read back differs from the store written (as multisets of entries)",
                                                   "finding": None, "case": gen.strip_struct(case)})
                if o.get("policies_after") is not None and o["policies_after"] != o["policies_before"]:
                    lost = [p[:2] for p in o["policies_before"] if p not in o["policies_after"]]
                    res["oracle_failures"].append({"id": cid, "what": f"policy entries change across write + read (typed values, not their serialisation): {lost[:4]}",
                                                   "finding": None, "case": gen.strip_struct(case)})
                if "store_struct" in case and "policies_before" in o:
                    want = sorted((k.partition(":")[0], k.partition(":")[2] or "") for k in case["store_struct"]["policy"])
                    got = sorted((p[0], p[1] or "") for p in o["policies_before"])
                    if want != got:
                        res["oracle_failures"].append({"id": cid, "what": f"policy table read as {got[:6]}, the file has {want[:6]}", "finding": None,
                                                       "case": gen.strip_struct(case)})
                if "store_struct" in case and o.get("entries") is not None:
                    # input fidelity: every audit of the files as generated is read with the flags the file gives it
                    # (`importable` absent means importable, whatever the version looks like)
                    st_ = case["store_struct"]
                    want = Counter()
                    for f_ in [st_] + list(st_["lock"]["audits"].values()):
                        for l_ in f_.get("audits", {}).values():
                            for a_ in l_:
                                kd = (("full", a_["version"]) if a_.get("kind") == "full" else
                                      ("delta", a_["from"], a_["to"]) if a_.get("kind") == "delta" else ("violation", a_["violation"]))
                                want[(kd, tuple(a_["criteria"]), a_.get("importable", True))] += 1
                    got = Counter()
                    for ent in o["entries"]:
                        if ent["type"] != "audit":
                            continue
                        t_ = ent["typed"]
                        kd = t_["kind"]
                        kd = (("full", kd["full"]) if "full" in kd else ("delta", kd["delta"][0], kd["delta"][1]) if "delta" in kd
                              else ("violation", kd["violation"]))
                        got[(kd, tuple(t_["criteria"]), t_["importable"])] += 1
                    if want != got:
                        diff = sorted((want - got).elements(), key=str)[:2] + sorted((got - want).elements(), key=str)[:2]
                        res["oracle_failures"].append({"id": cid, "what": f"audits are not read as the files give them (kind, criteria, importable): {diff}",
                                                       "finding": None, "case": gen.strip_struct(case)})
                if flags["bytes_equal_unchecked"] != "1":
                    res["oracle_failures"].append({"id": cid, "what": "writing what was just read does not reproduce the same bytes", "finding": None,
                                                   "case": gen.strip_struct(case)})
                if flags["locked_reload"] not in ("ok", "refused_ImportsLockOutdated"):
                    res["oracle_failures"].append({"id": cid, "what": f"a locked load refuses the files cargo-vet itself produced: {flags['locked_reload']}",
                                                   "finding": None, "case": gen.strip_struct(case)})
            if any(ord(ch) < 32 or ch in "\"'#\\" for t in case["store"].values() for ch in t):
                nontrivial += 1
            # ---- model tie: the encoding layer, entry by entry
            toks = {}

            def tk(s_):
                return toks.setdefault(s_, len(toks))

            def L(l):
                return "[" + "; ".join(f"{tk(x)}%N" for x in l) + "]"

            def OPT(x):
                return "None" if x is None else f"(Some {tk(x)}%N)"
            for k, ent in enumerate(o.get("entries", [])[:40]):
                t = ent["typed"]
                if ent["type"] == "audit":
                    kd = t["kind"]
                    kind = (f"(AFull {tk(kd['full'])}%N)" if "full" in kd else
                            f"(ADelta {tk(kd['delta'][0])}%N {tk(kd['delta'][1])}%N)" if "delta" in kd else f"(AViolation {tk(kd['violation'])}%N)")
                    ex = (f"stable (enc_audit (Build_audit_entry {L(t['who'])} {L(t['criteria'])} {kind} "
                          f"{'true' if t['importable'] else 'false'} {OPT(t['notes'])} {L(t['agg'])}))")
                elif ent["type"] == "exemption":
                    ex = (f"stable (enc_exemption (Build_exemption_entry {tk(t['version'])}%N {L(t['criteria'])} "
                          f"{'true' if t['suggest'] else 'false'} {OPT(t['notes'])}))")
                elif ent["type"] == "wildcard":
                    rn = "None" if t["renew"] is None else f"(Some {'true' if t['renew'] else 'false'})"
                    ex = (f"stable (enc_wildcard (Build_wildcard_entry {L(t['who'])} {L(t['criteria'])} {t['user']}%N {tk(t['start'])}%N "
                          f"{tk(t['end'])}%N {rn} {OPT(t['notes'])} {L(t['agg'])}))")
                else:
                    ex = (f"stable (enc_criteria (Build_criteria_entry {OPT(t['description'])} {OPT(t['url'])} {L(t['implies'])} {L(t['agg'])}))")
                key = f"{cid}#{k}"
                exprs.append((key, ex))
                # what the real Serialize impl produced, in the model's vocabulary
                real = []
                for jk, jv in ent["json"].items():
                    if jv is None:
                        continue
                    if isinstance(jv, bool):
                        real.append([jk, ["bool", "1" if jv else "0"]])
                    elif isinstance(jv, int):
                        real.append([jk, ["int", str(jv)]])
                    elif isinstance(jv, list):
                        real.append([jk, ["arr"] + [str(tk(x)) for x in jv]])
                    elif jk == "delta":
                        a_, b_ = jv.split(" -> ")
                        real.append([jk, ["delta", str(tk(a_)), str(tk(b_))]])
                    else:
                        real.append([jk, ["str", str(tk(jv))]])
                expect[key] = (real, cid, case)
            # ---- model tie: policy entries (absent vs present-and-empty criteria lists, dependency-criteria map)
            for k, ent in enumerate(o.get("policy_entries", [])[:12]):
                t = ent["typed"]

                def OL(x):
                    return "None" if x is None else f"(Some {L(x)})"
                ob = "None" if t["audit_as"] is None else f"(Some {'true' if t['audit_as'] else 'false'})"
                dep = "[" + "; ".join(f"({tk(d[0])}%N, {L(d[1])})" for d in t["dep"]) + "]"
                pkey2 = f"{cid}#pol{k}"
                exprs.append((pkey2, f"sptable (enc_policy (Build_policy_entry {ob} {OL(t['criteria'])} {OL(t['dev'])} {dep} {OPT(t['notes'])}))"))
                real = []
                for jk, jv in (ent["json"] or {}).items():
                    if jv is None:
                        continue
                    if isinstance(jv, bool):
                        real.append([jk, ["bool", "1" if jv else "0"]])
                    elif isinstance(jv, list):
                        real.append([jk, ["arr"] + [str(tk(x)) for x in jv]])
                    elif isinstance(jv, dict):
                        real.append([jk, ["map"] + [["e", str(tk(dk)), (["arr"] + [str(tk(x)) for x in dv]) if isinstance(dv, list) else ["str", str(tk(dv))]]
                                                    for dk, dv in jv.items()]])
                    else:
                        real.append([jk, ["str", str(tk(jv))]])
                expect[pkey2] = (real, cid, case)
            # ---- model tie: the keys of the [policy] table as written vs the model's key encoding
            if o.get("policy_typed") and flags["parse_back"] == "ok":
                def CH(s_):
                    return "[" + "; ".join(f"{ord(ch)}%N" for ch in s_) + "]"
                ents = []
                for (pn, sv, gr) in o["policy_typed"][:12]:
                    ver = "None" if sv is None else f"(Some (Build_vetver {CH(sv)} {'None' if gr is None else '(Some ' + CH(gr) + ')'}))"
                    ents.append(f"({CH(pn)}, {ver})")
                pkey = f"{cid}#policy"
                exprs.append((pkey, f"spkeys [{'; '.join(ents)}]"))
                try:
                    import tomllib
                    written = tomllib.loads(o["written"]["config"]).get("policy", {})
                    real_keys = sorted(written)[:]
                except Exception:
                    real_keys = None
                policy_expect[pkey] = (real_keys, len(o["policy_typed"]), cid, case)
            if len(res["samples"]) < 2:
                res["samples"].append({"id": cid, "audits_toml_written": o["written"]["audits"][:600], "observation": o["obs"]})
        model = vetlib.run_model(exprs, os.path.join(work, "model"), ["Base", "Extracted", "Show", "Serde", "ShowSerde", "SerdePolicy", "ShowSerdePolicy"]) if model_ok else {}
        for pkey, (real_keys, ntyped, cid, case) in policy_expect.items():
            m = model.get(pkey)
            if m is None or real_keys is None:
                continue
            if m.startswith("MODEL-ERROR"):
                res["mismatches"].append({"id": cid, "why": "model evaluation failed: " + m[:200], "case": gen.strip_struct(case)})
                continue
            e = vetlib.parse_sexp(m)
            got = sorted("".join(chr(int(c)) for c in k[1:]) for k in e[1:])
            if ntyped <= 12 and got != sorted(real_keys):
                res["mismatches"].append({"id": cid, "why": "the model's [policy] keys differ from the keys cargo-vet wrote",
                                          "impl": json.dumps(sorted(real_keys))[:400], "model": json.dumps(got)[:400], "case": gen.strip_struct(case)})
        compared = 0
        for key, (real, cid, case) in expect.items():
            if key not in model:
                continue
            m = model[key]
            if m.startswith("MODEL-ERROR"):
                res["mismatches"].append({"id": cid, "why": "model evaluation failed: " + m[:200], "case": gen.strip_struct(case)})
                continue
            compared += 1
            e = vetlib.parse_sexp(m)
            got = sorted([x[0], x[1]] for x in e[1:])
            real = sorted(real)
            if got != real:
                res["mismatches"].append({"id": cid, "why": "the model's encoding of an entry differs from the real Serialize output",
                                          "impl": json.dumps(real)[:400], "model": json.dumps(got)[:400], "case": gen.strip_struct(case)})
        res["nontrivial"] = nontrivial
        res["stats"] = {"harness_status": dict(Counter(o["status"] for o in obs.values())), "compared": compared,
                        "distribution": dict(dist)}
        if res["mismatches"]:
            with open(os.path.join(work, "mismatches.json"), "w") as f:
                json.dump(res["mismatches"][:20], f, indent=1)
        return res



class C19(Spec):
    pid = "C19"
    coq_files = ["Properties/C19.v"]
    theorems = ["C19_confined", "C19_interrupted_unpack_has_no_marker", "C19_failed_unpack_has_no_marker",
                "C19_retry_is_a_clean_unpack", "C19_completed_unpack_has_marker", "C19_accepted_tree_is_the_archive", "C19_accepted_directories_are_complete_unpacks"]
    level_text = ("Theorems about a file-system model of unpack_package / fetch_is_ok / the retry in fetch_package, for every archive "
                  "(absolute paths, `..`, other crates' directories, a carried completion marker) and every cut point k: nothing outside "
                  "the crate's own directory changes; an interrupted or failed unpack never leaves a valid marker; the next fetch "
                  "therefore unpacks from scratch and equals a clean unpack; a directory that is handed out holds exactly what the archive "
                  "says (last regular-file entry per path, nothing left over, nothing missing: C19_accepted_tree_is_the_archive), and "
                  "this holds in every state reached by ANY list of fetches of any crates, each cut anywhere or not at all, from a cache "
                  "without valid markers (C19_accepted_directories_are_complete_unpacks, induction over the history). The order of the steps (stale-directory removal, prefix "
                  "check before unpack_in, marker after the loop) and the skipping of carried `.cargo-ok` entries are re-read from "
                  "the source by the translator. PARTIAL: tar::Entry::unpack_in is specified (skips `..`, never writes through a "
                  "symlink leaving the destination), not verified; power-loss ordering of sync_all is not modelled.")
    level_note = ("The implementation is exercised with real .crate files (hostile names written as raw header bytes, symlinks, hard links, "
                  "lying size fields) cut at arbitrary byte offsets, through the real Cache::fetch_package on a temp cache with CARGO_HOME "
                  "redirected; the directory tree is inspected before/after. The original defect (archive carrying its own marker) was "
                  "repaired by a `fix:` commit.")
    design_ref = "DESIGN.md §4 C19"
    rule = ("generated archives: 2-6 benign files plus (55%) 1-3 hostile entries (the marker itself at top level or nested, `../x`, "
            "`prefix/../x`, absolute paths, another crate's directory, a sibling directory sharing the prefix string, symlink-then-file "
            "through it, hard link, duplicate entry, size field larger than the data, empty dir, entries whose real name travels in a GNU "
            "long-name or PAX path record — hostile (sibling crate, `..`, the marker) and honest (paths over 100 bytes)), 70% truncated at a random byte offset "
            "or block boundary; each case: fetch the cut archive, retry with the intact one, then a reference unpack into a fresh "
            "directory; non-trivial = a hostile entry or a cut")
    projection_doc = ("for every uncut fetch of a case (the first attempt when the archive is intact, the retry from the tree the first "
                      "attempt really left, the reference unpack): whether a directory is handed out, and the complete set of "
                      "(path, content) files below cache/src, must equal the model's fetch on the same archive and starting tree")
    assumptions = ["tar 0.4 unpack_in behaves as specified", "the test runs on a local file system (no NFS)"]
    quick_n = 150
    thorough_n = 3000

    def model_modules_paths(self):
        return ["ShowUnpack"]

    def gen_cases(self, rng, n):
        # deterministic archives first (no draw from rng): file-like entries of a rare type the archive reader unpacks as
        # ordinary files (contiguous, type flag '7'), alone and next to entries that ARE skipped (links, a carried marker)
        pre = "foo-1.0.0"
        base = [{"path": f"{pre}/Cargo.toml", "kind": "file", "content": "[package]"},
                {"path": f"{pre}/src/lib.rs", "kind": "file", "content": "pub fn f() {}"}]
        rare = [[{"path": f"{pre}/build.rs", "kind": "contiguous", "content": "fn main() {}"}],
                [{"path": f"{pre}/link", "kind": "symlink", "target": "../other-1.0.0"},
                 {"path": f"{pre}/contig.rs", "kind": "contiguous", "content": "a contiguous file"},
                 {"path": f"{pre}/.cargo-ok", "kind": "file", "content": "ok"}],
                [{"path": f"{pre}/src/lib.rs", "kind": "contiguous", "content": "the later entry wins"}]]
        fixed = [{"id": f"ur{k}", "kind": "unpack", "name": "foo", "version": "1.0.0", "entries": base[:1] + r + base[1:] if k != 2 else base + r}
                 for k, r in enumerate(rare)]
        return fixed + [gen.gen_unpack_case(rng, f"u{i}") for i in range(n)]

    def run(self, rng, tier, work, model_ok=True, ncases=None, replay=None):
        n = ncases or (self.quick_n if tier == "quick" else self.thorough_n)
        if replay:
            with open(replay) as f:
                r = json.load(f)
            cases = [r.get("case", r)]
            cases[0].setdefault("id", "replay")
        else:
            cases = load_corpus(self.pid) + self.gen_cases(rng, n)
        obs = vetlib.run_harness(cases, os.path.join(work, "impl"))
        res = {"cases": [c["id"] for c in cases], "mismatches": [], "oracle_failures": [], "samples": [],
               "findings_seen": {}, "stats": {}}
        bycase = {c["id"]: c for c in cases}
        dist = Counter()
        nontrivial = 0
        crate = "cache/src/foo-1.0.0/"
        compared = 0
        if model_ok:
            exprs, expect = [], {}
            for cid, o in obs.items():
                if o["status"] == "ok":
                    ex, want = self.model_steps(bycase[cid], o)
                    exprs += ex
                    expect.update(want)
            model = vetlib.run_model(exprs, os.path.join(work, "model"), ["Base", "Extracted", "Show", "Unpack", "ShowUnpack"])
            for eid, want in expect.items():
                m = model.get(eid, "MODEL-ERROR: missing")
                cid, k = eid.rsplit("#", 1)
                if m.startswith("MODEL-ERROR"):
                    res["mismatches"].append({"id": cid, "why": "model evaluation failed: " + m[:300], "case": bycase[cid]})
                    continue
                compared += 1
                got = canon_unpack(m)
                if got != want:
                    res["mismatches"].append({"id": cid, "why": f"step {k}: the tree below cache/src after the real fetch_package differs from the model's",
                                              "impl": json.dumps(want)[:600], "model": json.dumps(got)[:600], "case": bycase[cid]})
        for cid, o in obs.items():
            case = bycase[cid]
            if o["status"] != "ok":
                res["mismatches"].append({"id": cid, "why": f"harness {o['status']}: {str(o.get('panic') or o.get('error'))[:300]}", "case": case})
                continue
            before = o["before"]
            steps = o["steps"]
            ref_tree = {k: v for k, v in steps[2]["tree"].items() if k.startswith(crate)}
            ref_ok = steps[2]["result"] == "ok"
            dist[tuple(s["result"].split()[0] for s in steps)] += 1
            if case.get("truncate_at") or any(e["path"].startswith(("..", "/")) or ".." in e["path"] or e["path"].endswith(".cargo-ok")
                                               or e.get("kind") in ("symlink", "hardlink", "contiguous") or e.get("long_name") for e in case["entries"]):
                nontrivial += 1

            def fail(what):
                res["oracle_failures"].append({"id": cid, "what": what, "finding": None, "case": case})
            for k, s in enumerate(steps):
                t = s["tree"]
                # (1) confinement
                for path, v in t.items():
                    if path.startswith(crate) or path == crate[:-1] + "/":
                        continue
                    if path.startswith("cache/") and not path.startswith("cache/src/"):
                        continue                      # the cache's own bookkeeping files
                    if path.startswith("cargo-home"):
                        continue
                    if before.get(path) != v:
                        fail(f"step {k}: {path!r} outside the crate's directory was created or modified ({before.get(path)!r} -> {v!r})")
                for path, v in before.items():
                    if path not in t and not path.startswith(crate):
                        fail(f"step {k}: {path!r} outside the crate's directory was removed")
                # (2) a handed-out directory is a complete unpack
                marker = t.get(crate + ".cargo-ok")
                here = {p: v for p, v in t.items() if p.startswith(crate)}
                if s["result"] == "ok":
                    if ref_ok and here != ref_tree:
                        extra = sorted(set(here.items()) ^ set(ref_tree.items()))[:3]
                        fail(f"step {k}: the source directory handed out differs from a complete unpack of the archive: {extra}")
                    # ... and it is the archive, exactly (the text-level counterpart of C19_accepted_tree_is_the_archive; no
                    # value the implementation computed is taken as the truth here): every regular-file entry below the crate's
                    # directory is there, with the content of the last entry of that name
                    if not any("size" in e for e in case["entries"]):
                        want = {}
                        for e in case["entries"]:
                            real = e.get("long_name") or e["path"]
                            comps = [c for c in real.split("/") if c not in ("", ".")]
                            if real.startswith("/") or ".." in comps or not comps or comps[0] != crate.split("/")[-2]:
                                continue
                            if e.get("kind", "file") not in ("file", "contiguous") or comps[-1] == ".cargo-ok":
                                continue
                            want[crate + "/".join(comps[1:])] = "file:" + e.get("content", "")[:40]     # (the harness reports the first 40 characters)
                        for path, v in sorted(want.items()):
                            if here.get(path) != v:
                                fail(f"step {k}: the source directory handed out as complete lacks (or alters) the archive's file {path!r}: "
                                     f"{str(here.get(path))[:40]!r} instead of {v[:40]!r}")
                                break
                elif marker == "file:ok":
                    fail(f"step {k}: unpacking failed ({s['result'][:60]}) but the directory keeps a valid completion marker")
            # (3) after an interruption the retry succeeds whenever a clean unpack does
            if ref_ok and steps[1]["result"] != "ok":
                fail(f"the retry after an interrupted unpack failed ({steps[1]['result'][:80]}) although a clean unpack succeeds")
            if len(res["samples"]) < 2:
                res["samples"].append({"id": cid, "entries": [e["path"] for e in case["entries"]], "truncate_at": case.get("truncate_at"),
                                       "results": [s["result"][:50] for s in steps]})
        res["nontrivial"] = nontrivial
        res["stats"] = {"harness_status": dict(Counter(o["status"] for o in obs.values())),
                        "results": {" / ".join(k): v for k, v in dist.items()}, "compared": compared}
        return res

    def model_steps(self, case, o):
        """the model is run on every UNCUT fetch of the case: step 0 when the archive is not truncated, the retry (step 1)
        from the tree the first attempt really left, the reference unpack (step 2) from the tree without the crate's directory.
        Entries whose header lies about the size are left to the direct oracle (what the stream then means is the tar
        reader's business)."""
        if any("size" in e for e in case["entries"]):
            return [], {}
        names, contents = {".cargo-ok": 0}, {"file:ok": 1}

        def nid(c):
            return names.setdefault(c, len(names) + 1)

        def cid_of(v):
            return contents.setdefault(v, len(contents) + 1)
        pre = f"{case.get('name', 'foo')}-{case.get('version', '1.0.0')}"
        prefix = nid(pre)
        ar = []
        for e in case["entries"]:
            real = e.get("long_name") or e["path"]       # the name the archive reader reports for the entry
            comps = [{"_c": "CParent", "a": []} if c == ".." else {"_c": "CNormal", "a": [nid(c)]}
                     for c in real.split("/") if c not in ("", ".")]
            kind = {"file": "EFile", "contiguous": "EFile", "dir": "EDir"}.get(e.get("kind", "file"), "ELink")
            ar.append({"_c": "Build_entry", "a": [real.startswith("/"), comps, {"_c": kind, "a": []},
                                                  cid_of("file:" + e.get("content", "")[:40])]})

        def fs_of(tree, drop_crate=False):
            out = []
            for path, v in sorted(tree.items()):
                if path.startswith("cache/src/") and v.startswith("file:"):
                    if drop_crate and path.startswith(f"cache/src/{pre}/"):
                        continue
                    out.append(([nid(c) for c in path[len("cache/src/"):].split("/")], cid_of(v)))
            return out
        steps = o["steps"]
        starts = {1: fs_of(steps[0]["tree"]), 2: fs_of(steps[1]["tree"], drop_crate=True)}
        if not case.get("truncate_at"):
            starts[0] = fs_of(o["before"])
        exprs, want = [], {}
        for k, f0 in starts.items():
            eid = f"{case['id']}#{k}"
            exprs.append((eid, f"show_fetch {prefix}%N {coq(ar)} {coq([{'_pair': [p, c]} for p, c in f0])}"))
            want[eid] = {"handed_out": steps[k]["result"] == "ok",
                         "files": sorted([list(p), c] for p, c in fs_of(steps[k]["tree"]))}
        return exprs, want


import hist  # noqa: E402


class HistorySpec(Spec):
    """properties decided on command histories driven through the real cmd_*"""
    quick_n = 120
    thorough_n = 1500
    oracle_fn = None
    rule = ("seeded command histories (3-7 commands from check, check --locked, prune with every flag combination, regenerate "
            "imports/exemptions/unpublished, certify, add-exemption, fmt) on generated graphs and stores with 0-2 peers and a mock "
            "crates.io, the remote state mutating between steps (peer adds/revokes/changes audits, new published versions); every "
            "command is run by the real cmd_* on a store directory; before/after each step the harness probes the verdict (unlocked "
            "and --locked) and re-runs the command on a copy; every resolve/get_store_updates call made inside the real commands is "
            "tapped and re-evaluated in the Coq model. non-trivial = a history with at least one store-writing command that succeeded")
    projection_doc = ("for every tapped resolver call inside the real commands: verdict (kind, failures, requirement vector, "
                      "classification) and the full StoreUpdates (as multisets) must equal the model's")

    def model_modules_paths(self):
        return ["ShowUpdate"]

    def tap_relevant(self, t):
        return True

    def step_oracle(self, st):
        return type(self).oracle_fn(st)

    def step_nontrivial(self, st):
        return st.outcome == "ok" and st.cls != "check-locked"

    def findings(self):
        return []

    def gen_cases(self, rng, n):
        return ([gen.scenario_unpublished_vs_peer(f"sc{k}", k) for k in range(3)] +
                [gen.scenario_two_versions_exemption(f"tv{k}", k) for k in range(2)] +
                [gen.scenario_stale_unpublished(f"su{k}", k) for k in range(2)] +
                [gen.scenario_violation_before_audit(f"vb{k}", k) for k in range(2)] +
                [gen.scenario_certify_collapse(f"cc{k}", k) for k in range(4)] +
                [gen.scenario_unmapped_before_needed(f"um{k}", k) for k in range(2)] +
                [gen.scenario_old_store_version(f"ov{k}x", k) for k in range(3)] +
                [gen.scenario_publisher_names_disagree(f"pn{k}", k) for k in range(2)] +
                [gen.scenario_unpublished_moved_on(f"mo{k}", k) for k in range(2)] +
                [gen.scenario_trusted_after_foreign_publisher(f"tf{k}", k) for k in range(2)] +
                [gen.scenario_shared_exemption_two_needs(f"sx{k}", k) for k in range(2)] +
                [gen.scenario_lapsed_peer_wildcard(f"lw{k}", k) for k in range(2)] +
                [gen.scenario_overlap_redundant_exemption(f"ov{k}", k) for k in range(3)] +
                [gen.scenario_duplicate_exemptions(f"de{k}", k) for k in range(2)] +
                [gen.scenario_trusted_vs_recorded_audit(f"tr{k}", k) for k in range(2)] +
                [gen.gen_history(rng, f"h{i}") for i in range(n)])

    def run(self, rng, tier, work, model_ok=True, ncases=None, replay=None):
        n = ncases or (self.quick_n if tier == "quick" else self.thorough_n)
        if replay:
            with open(replay) as f:
                r = json.load(f)
            cases = [r.get("case", r)]
            cases[0].setdefault("id", "replay")
        else:
            cases = [c for c in load_corpus(self.pid) if c.get("kind") == "history"] + self.gen_cases(rng, n)
        return hist.run_histories(self, cases, work, model_ok=model_ok)


class _C05Hist(HistorySpec):
    """the history stage of the C05 check: the audits `certify` writes denote the criteria that were asked for / recorded"""
    pid = "C05"
    compare_user_commands = True

    @staticmethod
    def oracle_fn(st):
        # what certify writes; and what the pruning update writes for an exemption still means everything the exemption is
        # needed for (the written list denotes the computed set): a passing store keeps passing
        out = hist.oracle_c05(st)
        if st.cls in ("prune", "regenerate-imports"):
            out += hist.oracle_c10(st)
        return out

    def gen_cases(self, rng, n):
        return ([gen.scenario_certify_collapse(f"cc{k}", k) for k in range(4)] +
                [gen.scenario_shared_exemption_two_needs(f"sx{k}", k) for k in range(2)] +
                [gen.gen_history(rng, f"h{i}") for i in range(n)])

    def step_nontrivial(self, st):
        return st.cls in ("certify", "prune") and st.outcome == "ok"


class _C17Hist(HistorySpec):
    """the history stage of the C17 check: the criteria `certify` pre-selects when the user names none"""
    pid = "C17"
    oracle_fn = staticmethod(hist.oracle_c17)
    compare_user_commands = True

    def gen_cases(self, rng, n):
        return [gen.scenario_certify_guess(f"cg{k}", k) for k in range(6)] + [gen.gen_history(rng, f"h{i}") for i in range(n)]

    def step_nontrivial(self, st):
        return st.cls == "certify" and "--criteria" not in st.args


class _C08Hist(HistorySpec):
    """the history stage of the C08 check: the choice made for an unpublished version is RECORDED, so that `--locked` keeps
    passing after an unlocked success"""
    pid = "C08"
    oracle_fn = staticmethod(hist.oracle_c09)

    def gen_cases(self, rng, n):
        return ([gen.scenario_stale_unpublished(f"su{k}", k) for k in range(2)] +
                [gen.scenario_unpublished_moved_on(f"mo{k}", k) for k in range(2)] +
                [gen.scenario_unpublished_vs_peer(f"sc{k}", k) for k in range(3)] +
                [gen.gen_history(rng, f"h{i}") for i in range(n)])

    def step_nontrivial(self, st):
        return st.cls == "check" and st.outcome == "ok"


class _C12Hist(HistorySpec):
    """the history stage of the C12 check (prune keeps an exemption, and each criterion it lists, only if needed)"""
    pid = "C12"
    oracle_fn = staticmethod(hist.oracle_c12)

    def step_nontrivial(self, st):
        return st.cls == "prune" and st.outcome == "ok"


class C09(HistorySpec):
    pid = "C09"
    oracle_fn = staticmethod(hist.oracle_c09)
    compare_user_commands = True
    coq_files = ["Properties/C09.v"]

    def model_modules_paths(self):
        return ["ShowUpdate", "ShowUser", "ShowCollapse", "ShowGuess", "ShowStoreVersion"]

    theorems = ["C09_locked_check_succeeds_after_unlocked_check", "C09_failing_run_writes_nothing", "C09_required_local_audit_kept",
                "C09_required_imported_audit_kept", "C09_required_wildcard_kept", "C09_required_publisher_kept",
                "C09_locked_accepts_the_version_an_unlocked_run_wrote", "C09_older_store_upgraded_only_unlocked"]
    level_text = ("END-TO-END theorem C09_locked_check_succeeds_after_unlocked_check: for every graph, criteria table and loaded store, "
                  "if the model's unlocked cmd_check succeeds and commits s1 then the locked check of s1 has no errors. Proved by edge "
                  "simulation: the update's own searches succeed, every origin on every chosen path is recorded in the required-entry "
                  "map, every recorded entry survives get_store_updates (audits, imported audits, wildcard audits x publisher records, "
                  "trusted x publisher, unpublished links through sort+dedup, exemptions through their narrowing), so each path edge has a "
                  "counterpart with the same endpoints still carrying the criterion in the written store; criteria implied by a searched "
                  "minimal criterion follow because edge criteria sets are closed; no violation conflict can appear because audits are "
                  "only removed and exemptions only narrowed. Plus C09_failing_run_writes_nothing and the per-category kept theorems. "
                  "Hypothesis store_ok (acyclic table, defined exemption criteria, an entry per crate name) is evaluated in its "
                  "executable form on every store the real commands load.")
    level_note = ("Model = coq/Update.v + Commands.v; every get_store_updates/resolve call inside the real commands is tapped and "
                  "compared with the model. TOML round-trip (C14) and the lock-freshness check of a locked load are exercised, not proved here.")
    design_ref = "DESIGN.md §4 C09"
    assumptions = ["mock network and mock crates.io stand in for peers and the registry", "today = 2023-01-01 (mock_now)"]

    def step_nontrivial(self, st):
        return st.cls == "check" and st.outcome == "ok"


class C10(HistorySpec):
    pid = "C10"
    oracle_fn = staticmethod(hist.oracle_c10)
    coq_files = ["Properties/C10.v"]
    theorems = ["C10_update_preserves_vetting", "C10_certify_preserves_vetting", "C10_certify_with_fold_preserves_vetting", "C10_trust_preserves_vetting", "C10_import_preserves_vetting", "C10_prune_preserves", "C10_regenerate_imports_preserves", "C10_certify_cleanup_preserves",
                "C10_trust_cleanup_preserves", "C10_import_cleanup_preserves", "C10_init_and_regenerate_certify",
                "C10_regenerate_search_never_fails", "C10_prune_keeps_required_entries", "C10_failing_crate_keeps_stored_imports"]
    level_text = ("END-TO-END theorems: vets s -> vets (k s) for k = prune with all 8 flag combinations, regenerate imports, the "
                  "clean-up updates after certify / trust / import, and in general any store update whose searches are not in "
                  "RegenerateExemptions mode (C10_update_preserves_vetting; same edge-simulation proof as C09, update modes re-read "
                  "from main.rs on every run); C10_init_and_regenerate_certify: after init / regenerate exemptions every required "
                  "criterion of every third-party crate whose audit graph had no violation conflict has a certifying chain in the "
                  "written store (the search cannot fail in that mode, fresh exemptions are written for what it needed). Not proved: "
                  "that a regenerated exemption cannot itself collide with a violation entry (the property excludes violation conflicts).")
    level_note = C09.level_note
    design_ref = "DESIGN.md §4 C10"
    assumptions = C09.assumptions

    def step_nontrivial(self, st):
        return st.outcome == "ok" and st.concl("pre_check") == "success" and st.cls not in ("check-locked",)


class C11(HistorySpec):
    pid = "C11"
    compare_user_commands = True
    oracle_fn = staticmethod(hist.oracle_c11)
    coq_files = ["Properties/C11.v"]
    theorems = ["C11_updates_shape", "C11_local_audits_only_removed", "C11_no_audits_flag", "C11_imported_audits_from_live",
                "C11_imported_wildcards_from_live", "C11_publishers_from_live", "C11_unpublished_from_live",
                "C11_exemptions_only_narrowed", "C11_no_exemptions_flag", "C11_modes_that_may_add_exemptions",
                "C11_updates_never_widen_what_is_certified", "C11_check_never_widens", "C11_prune_never_widens",
                "C11_regenerate_imports_never_widens", "C11_cleanups_never_widen",
                "C11_trust_changes_one_entry", "C11_trusted_criteria_mean_the_request", "C11_certify_fold_certifies_nothing_new"]
    level_text = ("Theorems about the model of get_store_updates, for every store, graph and update mode: local audits are only "
                  "removed (untouched with --no-audits); every imports.lock entry written is an element of the live set with its "
                  "freshness flag cleared; local wildcard audits and trusted entries are never part of an update; outside "
                  "RegenerateExemptions every written exemption is an old one of the same version and suggest flag denoting a subset "
                  "of the old criteria (equal with --no-exemptions), proved through soundness of the search (an exemption is recorded "
                  "as required only for criteria its edge carries); and only init / regenerate exemptions use RegenerateExemptions "
                  "(modes re-read from main.rs). At the level of meaning (proofs/NeverWidens.v): for every crate, criterion and version — in "
                  "the graph or not — whatever the updated store certifies, the store the command loaded already certified "
                  "(C11_updates_never_widen_what_is_certified, instantiated for check, prune × 8 flag sets, regenerate imports and the "
                  "clean-ups after certify / trust / import). Of the user-requested changes, `trust` has logic of its own and is "
                  "modelled (UserCommands.v): exactly one trusted entry of the crate changes — a new one for the request, or an "
                  "existing one of the same publisher and (cleaned-up) criteria whose window lay inside the requested one — and the "
                  "criteria written mean the request.")
    level_note = ("as C09. `trust` steps with an explicit window are also run through the model and compared with the trusted table "
                  "the real command wrote. What the user's own entry adds otherwise (certify, add-exemption, ...) is outside the "
                  "model and is checked by the semantic-diff oracle on the real files around every command.")
    design_ref = "DESIGN.md §4 C11"
    assumptions = C09.assumptions

    def model_modules_paths(self):
        return ["ShowUpdate", "ShowUser", "ShowCollapse", "ShowGuess", "ShowStoreVersion"]


class C13(HistorySpec):
    pid = "C13"
    check_written_form = True
    oracle_fn = staticmethod(hist.oracle_c13)
    def model_modules_paths(self):
        return ["ShowUpdate", "WrittenForm"]

    coq_files = ["Properties/C13.v"]
    theorems = ["C13_check_update_leaves_settled_store", "C13_locked_check_writes_the_store_it_read",
                "C13_written_lists_are_canonical", "C13_check_keeps_exemption_meaning", "C13_check_on_a_written_store_writes_it_back", "C13_second_check_writes_the_same_store", "C13_written_form_test_is_sound"]
    level_text = ("Theorems: the check's own update leaves every local audit, imported audit, wildcard audit and publisher record of "
                  "a settled store (nothing fresh) in place whatever paths are chosen; a --locked check writes back the store it read; "
                  "written criteria lists are canonical (re-writing reproduces them); the check never narrows an exemption. "
                  "`prune; prune` is NOT idempotent on the unchanged tree (known finding F-C13-prune, replayed every run). PARTIAL: "
                  "byte-level idempotence of the files is exercised by re-running every real command on a copy, not proved.")
    level_note = ("as C09; byte equality also depends on the TOML writer (C14).")
    design_ref = "DESIGN.md §4 C13"
    assumptions = C09.assumptions


def canon_unpack(text):
    e = vetlib.parse_sexp(text)
    ho = vetlib.sexp_get(e, "handed_out")
    files = vetlib.sexp_get(e, "files")
    out = []
    for f in files[1:]:
        p = vetlib.sexp_get(f, "p")
        out.append([[int(x) for x in p[1:]], int(f[2])])
    return {"handed_out": ho[1] == "1", "files": sorted(out)}


def canon_lock(text):
    e = vetlib.parse_sexp(text)
    def files(l):
        return [sorted(int(x) for x in f[1:]) for f in l]
    views = vetlib.sexp_get(e, "views")
    final = vetlib.sexp_get(e, "final")
    return {"views": [[int(v[1])] + files(v[2:]) for v in views[1:]], "final": files(final[1:])}


class C18(SimpleSpec):
    pid = "C18"
    model_imports = ["Base", "Extracted", "Show", "Lock", "ShowLock"]
    coq_files = ["Properties/C18.v"]
    theorems = ["C18_mutex", "C18_no_torn_read", "C18_quiescent_files_agree", "C18_no_lost_update", "C18_files_are_exactly_the_commits", "C18_every_read_is_a_serial_state", "C18_locks_are_exclusive"]
    level_text = ("Theorems about a transition-system model of N processes sharing one store directory, for EVERY number of "
                  "processes, every assignment of roles (committing / dropping) and every schedule (any list of process ids, so any "
                  "think time): mutual exclusion of the load..commit sections, every loaded triple of files is one committed state "
                  "(no torn read), the files agree with the serial history whenever nobody is inside, and every finished committer's "
                  "marker is in all three files (no lost update); and nothing else: each file is the initial content followed by a "
                  "duplicate-free list whose members are precisely the finished committers (C18_files_are_exactly_the_commits), and "
                  "whatever any invocation has read of a file is a prefix of the serial history (C18_every_read_is_a_serial_state). The per-process action lists (lock, read x3, write x3, release) and "
                  "the facts 'the store lock / cache lock is an exclusive flock taken before the first read, a contended attempt "
                  "blocks, dropping the FileLock unlocks' are re-read from storage.rs / flock.rs by the translator on every run. "
                  "PARTIAL: flock(2) itself (exclusive between open file descriptions, released on unlock/close) is the DEFINITION of "
                  "the model's Lock/Unlock steps, not verified; NFS / lock-less file systems, where flock.rs deliberately skips "
                  "locking, and crashes between the three writes are outside the model.")
    level_note = ("The implementation side runs 2-9 real threads through Store::acquire_offline .. Store::commit / drop and "
                  "Cache::acquire .. drop on one temp directory with generated start delays and think times; the order in which "
                  "they obtained the lock is observed and the model is run on that serial schedule, so every user's loaded view "
                  "and the final files are compared with the model's; a direct oracle checks exclusion counters, load errors, "
                  "final contents and the cache's read-modify-write counter.")
    design_ref = "DESIGN.md §4 C18"
    rule = ("2-9 users per case (60% writers adding one marker to each of the three files, readers, cache users incrementing a "
            "counter kept in the cache's command history), start delays 0-300us (60%) or 0-4ms, think times 0-5ms between load and "
            "commit, 0-400 padding entries per file so that a write is not instantaneous; non-trivial = some user had to wait "
            "for the lock (asked before another user's release, obtained after it)")
    projection_doc = "per store user in lock order: the marker sets it loaded from config.toml / audits.toml / imports.lock; the final marker sets"
    assumptions = ["flock(2) on a local file system", "threads of one process stand for processes (each user opens its own file description)"]
    quick_n = 150
    thorough_n = 3000

    def model_modules_paths(self):
        return ["ShowLock"]

    def gen_cases(self, rng, n):
        r2 = __import__("random").Random(rng.random())
        # a fixed share of cases in which four to eight invocations queue on the cache at once
        return ([gen.gen_cache_contention_case(r2, f"cc{i}") for i in range(max(6, n // 12))] +
                [gen.gen_lock_case(rng, f"l{i}") for i in range(n)])

    def model_expr(self, o):
        mi = o["model_input"]
        return f"show_lock {coq(mi['roles'])} {coq(mi['order'])}"

    def canon(self, text):
        return canon_lock(text)

    def contended(self, o):
        us = [u for u in o["users"] if "got_us" in u]
        for a in us:
            for b in us:
                if a is not b and (a["role"] == "cache") == (b["role"] == "cache") and a["asked_us"] < b["released_us"] and a["got_us"] >= b["released_us"] - 50 and b["got_us"] < a["got_us"]:
                    return True
        return False

    def nontrivial(self, case, o, c):
        return self.contended(o)

    def tag(self, case, o, c):
        return "contended" if self.contended(o) else "uncontended"

    def describe(self, case, o):
        return {"id": case["id"], "users": case["users"], "observation": o["obs"][:300]}

    def oracle(self, case, o, c):
        out = []
        users = o["users"]
        for u in users:
            if u["outcome"] != "ok":
                out.append(f"user {u['user']} ({u['role']}): {u['outcome']} {u.get('error', '')[:200]}")
        if o["max_inside_store"] > 1:
            out.append(f"{o['max_inside_store']} store users were between load and commit at the same time")
        if o["max_inside_cache"] > 1:
            out.append(f"{o['max_inside_cache']} cache users held the cache at the same time")
        if o["final_status"] != "ok":
            out.append("the final store does not load: " + o["final_status"][:200])
        writers_ok = sorted(u["user"] for u in users if u["role"] == "writer" and u["outcome"] == "ok")
        for f, name in enumerate(["config.toml", "audits.toml", "imports.lock"]):
            got = sorted(o["final"][f]) if o["final"] else None
            if got != writers_ok:
                out.append(f"final {name} holds the markers {got}, the invocations that reported success are {writers_ok}")
            if o["final_pad"] and o["final_pad"][f] != o["padding"]:
                out.append(f"final {name} lost initial entries ({o['final_pad'][f]} of {o['padding']})")
        store_users = sorted((u for u in users if u["role"] != "cache" and "order" in u), key=lambda u: u["order"])
        before = []
        for u in store_users:
            for f in range(3):
                if sorted(u["view"][f]) != sorted(before):
                    out.append(f"user {u['user']} loaded file {f} with markers {sorted(u['view'][f])}; the commits before it were {sorted(before)}")
                if u["pad_seen"][f] != o["padding"]:
                    out.append(f"user {u['user']} loaded file {f} with {u['pad_seen'][f]} of {o['padding']} initial entries (torn read)")
            if u["role"] == "writer" and u["outcome"] == "ok":
                before.append(u["user"])
        ncache = sum(1 for u in users if u["role"] == "cache" and u["outcome"] == "ok")
        cleaners = any(u_.get("clean") for u_ in case["users"])       # `gc --clean` resets the command history
        if ncache and not cleaners and o["cache_count"] != ncache:
            out.append(f"the cache counter is {o['cache_count']} after {ncache} read-increment-write users")
        return out


REGISTRY = {c.pid: c for c in [C01, C02, C03, C04, C05, C06, C07, C08, C09, C10, C11, C12, C13, C14, C15, C16, C17, C18, C19]}


def get(pid):
    if pid not in REGISTRY:
        raise SystemExit(f"unknown property {pid}")
    return REGISTRY[pid]()
