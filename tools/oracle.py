"""oracle.py — direct, model-independent checks of property statements on
observations of the *implementation*.  Used to search for a concrete failing
input when a proof obligation or the correspondence breaks (and for shrinking);
never a substitute for a theorem.

Everything here works on the interned "model_input" JSON the harness emits
(records as {"_c": ctor, "a": [...]}) and on the harness's s-expression
observation; the semantics below are written from the property text / the book,
not from the Coq model.
"""
from vetlib import parse_sexp, sexp_get


def args(v):
    return v["a"]


def unopt(v):
    return None if v is None else v["_some"]


def num(v):
    if isinstance(v, dict):
        return v.get("_nat", v.get("_z"))
    return v


# ---------------------------------------------------------------- criteria
def table_of(store):
    return args(store)[0]           # list of implies-lists of customs


def ncrit(table):
    return 2 + len(table)


def closure(table, c):
    direct = {0: [], 1: [0]}
    for i, l in enumerate(table):
        direct[2 + i] = list(l)
    seen = {c}
    work = [c]
    while work:
        x = work.pop()
        for y in direct.get(x, []):
            if y not in seen:
                seen.add(y)
                work.append(y)
    return seen


def from_list(table, l):
    s = set()
    for c in l:
        s |= closure(table, c)
    return s


def bits(s):
    return sum(1 << c for c in s)


def unbits(n):
    return {i for i in range(n.bit_length()) if (n >> i) & 1}


def minimal(table, s):
    return sorted(c for c in s if not any(o != c and c in closure(table, o) for o in s))


# ---------------------------------------------------------------- store access
def pkg_store(store, name):
    for p in args(store)[1]:
        n, ps = p["_pair"]
        if n == name:
            return args(ps)
    return [[], [], [], [], [], [], [], []]


def audit_fields(a):
    kind, crit, importable, fresh = args(a)
    k = kind["_c"]
    ka = args(kind)
    return k, ka, crit, importable, fresh


def window_ok(start, end, when):
    # the property: published on a day not before start and not after end
    return start <= when <= end


def edges_of(table, ps):
    """independent enumeration of the certifying records of one crate as edges
    (from, to, criteria set, origin-sexp-list, level-info)"""
    imported, local, wimp, wloc, trusted, pubs, unpub, exempt = ps
    out = []
    for ii, l in enumerate(imported):
        for ai, a in enumerate(l):
            k, ka, crit, importable, fresh = audit_fields(a)
            if k == "KFull":
                out.append((None, ka[0], from_list(table, crit), ["I", str(ii), str(ai)], {"fresh": fresh}))
            elif k == "KDelta":
                out.append((ka[0], ka[1], from_list(table, crit), ["I", str(ii), str(ai)], {"fresh": fresh}))
    for ai, a in enumerate(local):
        k, ka, crit, importable, fresh = audit_fields(a)
        o = ["L", str(ai), "1" if importable else "0"]
        if k == "KFull":
            out.append((None, ka[0], from_list(table, crit), o, {"fresh": fresh, "nonimportable": not importable}))
        elif k == "KDelta":
            out.append((ka[0], ka[1], from_list(table, crit), o, {"fresh": fresh, "nonimportable": not importable}))
    for pi, p in enumerate(pubs):
        pver, puser, pwhen, pfresh = args(p)
        pwhen = num(pwhen)
        for ii, l in enumerate(wimp):
            for ai, w in enumerate(l):
                user, start, end, crit, wfresh = args(w)
                if user == puser and window_ok(num(start), num(end), pwhen):
                    out.append((None, pver, from_list(table, crit), ["W", str(ii), str(ai), str(pi)],
                                {"fresh": wfresh, "fresh_pub": pfresh, "grant": True}))
        for ai, w in enumerate(wloc):
            user, start, end, crit, wfresh = args(w)
            if user == puser and window_ok(num(start), num(end), pwhen):
                out.append((None, pver, from_list(table, crit), ["W", "-", str(ai), str(pi)],
                            {"fresh": wfresh, "fresh_pub": pfresh, "grant": True}))
        for t in trusted:
            user, start, end, crit = args(t)
            if user == puser and window_ok(num(start), num(end), pwhen):
                out.append((None, pver, from_list(table, crit), ["T", str(pi)], {"fresh": pfresh, "grant": True}))
    for ui, u in enumerate(unpub):
        uver, uas, ufresh, still = args(u)
        out.append((uas, uver, set(range(ncrit(table))), ["U", str(ui)], {"fresh": ufresh, "unpublished": True}))
    for xi, x in enumerate(exempt):
        xver, crit, suggest = args(x)
        out.append((None, xver, from_list(table, crit), ["X", str(xi)], {"exemption": True}))
    return out


def reachable(edges, c, start, avoid=lambda e: False):
    seen = {start}
    work = [start]
    while work:
        x = work.pop()
        for (f, t, crit, o, info) in edges:
            if f == x and c in crit and not avoid((f, t, crit, o, info)) and t not in seen:
                seen.add(t)
                work.append(t)
    return seen


def certified(edges, c, version, avoid=lambda e: False):
    return version in reachable(edges, c, None, avoid)


def check_path(edges, path, c, version):
    """path: list of origin sexps in the order the search returns them (from the
    target version back to the root).  Returns None if it is a chain of records
    from nothing to `version`, every link carrying c; else a reason."""
    cur = version
    bykey = {}
    for e in edges:
        bykey.setdefault(tuple(e[3]), []).append(e)
    for o in path:
        cands = bykey.get(tuple(o))
        if not cands:
            return f"path link {o} matches no store record"
        ok = [e for e in cands if e[1] == cur and c in e[2]]
        if not ok:
            return f"path link {o} does not end at version {cur} carrying criterion {c}"
        cur = ok[0][0]
    if cur is not None:
        return f"path stops at version {cur}, not at the root"
    return None


# ---------------------------------------------------------------- graph / requirements
def graph_nodes(graph):
    pkgs, members = args(graph)
    out = []
    for p in pkgs:
        name, ver, third, deps, pol = args(p)
        dl = []
        for d in deps:
            to, n, b, dv = args(d)
            dl.append((num(to), n, b, dv))
        pol = unopt(pol)
        if pol is not None:
            c, dc, depc = args(pol)
            pol = {"criteria": unopt(c), "dev": unopt(dc), "deps": {x["_pair"][0]: x["_pair"][1] for x in depc}}
        out.append({"name": name, "version": ver, "third": third, "deps": dl, "policy": pol})
    return out, [num(m) for m in members]


def requirements(table, graph):
    """least solution of the policy equations of C03, by naive iteration"""
    nodes, members = graph_nodes(graph)
    n = len(nodes)
    # roots: workspace members no one depends on via normal/build edges within
    # the normal build graph reachable from the workspace members
    reach = set()
    work = list(members)
    while work:
        x = work.pop()
        if x in reach:
            continue
        reach.add(x)
        for (to, nm, b, dv) in nodes[x]["deps"]:
            if nm or b:
                work.append(to)
    has_parent = set()
    for x in reach:
        for (to, nm, b, dv) in nodes[x]["deps"]:
            if nm or b:
                has_parent.add(to)
    roots = {m for m in members if m not in has_parent}
    R = [set() for _ in range(n)]
    changed = True
    it = 0
    while changed:
        it += 1
        if it > 10 * n + 10:
            return None, roots
        changed = False
        for p in range(n):
            pol = nodes[p]["policy"]
            if p not in visited_all(nodes, members):
                new = set()
            elif pol and pol["criteria"] is not None:
                new = from_list(table, pol["criteria"])
            else:
                new = set()
                if p in roots:
                    new |= from_list(table, [1])
                for q in range(n):
                    qpol = nodes[q]["policy"]
                    for (to, nm, b, dv) in nodes[q]["deps"]:
                        if to != p:
                            continue
                        override = None
                        if qpol and nodes[p]["name"] in qpol["deps"]:
                            override = from_list(table, qpol["deps"][nodes[p]["name"]])
                        if (nm or b) and q in visited_all(nodes, members):
                            new |= override if override is not None else R[q]
                        if dv and q in members:
                            if override is not None:
                                new |= override
                            elif qpol and qpol["dev"] is not None:
                                new |= from_list(table, qpol["dev"])
                            else:
                                new |= from_list(table, [0])
            if new != R[p]:
                R[p] = new
                changed = True
    return R, roots


_va_cache = {}


def visited_all(nodes, members):
    """nodes the two DFS passes reach (normal/build edges from members, then from
    members' dev-dependencies); only those propagate requirements"""
    key = (id(nodes), tuple(members))
    if key in _va_cache:
        return _va_cache[key]
    seen = set()
    work = list(members)
    for m in members:
        for (to, nm, b, dv) in nodes[m]["deps"]:
            if dv:
                work.append(to)
    while work:
        x = work.pop()
        if x in seen:
            continue
        seen.add(x)
        for (to, nm, b, dv) in nodes[x]["deps"]:
            if nm or b:
                work.append(to)
    _va_cache.clear()
    _va_cache[key] = seen
    return seen


# ---------------------------------------------------------------- observation access
class Report:
    def __init__(self, obs_sexp):
        e = parse_sexp(obs_sexp) if isinstance(obs_sexp, str) else obs_sexp
        self.e = e
        self.topo = [int(x) for x in sexp_get(e, "topo")[1:]]
        self.roots = [int(x) for x in sexp_get(e, "roots")[1:]]
        self.devonly = [int(x) for x in sexp_get(e, "devonly")[1:]]
        self.reqs = [int(x) for x in sexp_get(e, "reqs")[1:]]
        self.concl = sexp_get(e, "concl")[1]
        self.results = sexp_get(e, "results")[1:]

    @property
    def kind(self):
        return self.concl[0]

    def failures(self):
        return {int(f[1]): int(f[2]) for f in self.concl[1:]} if self.kind == "failvet" else {}

    def success_lists(self):
        if self.kind != "success":
            return None
        return {x[0]: [int(i) for i in x[1:]] for x in self.concl[1:]}

    def conflicts(self):
        if self.kind != "violation":
            return {}
        return {int(p[1]): p[2:] for p in self.concl[1:]}

    def search(self, i, c):
        r = self.results[i]
        if r[0] != "s":
            return None
        return r[1 + c]


# ---------------------------------------------------------------- what cargo-vet read vs what the files say
def fidelity(case, o):
    """Independent of every verdict: the store the implementation parsed (as the harness interned it, which is the
    model's input) must be the store the generator wrote, and the third-party classification must follow the
    sources and the policy table.  Guards the oracles against taking their ground truth from a value the
    implementation computed."""
    from collections import Counter
    out = []
    st = case.get("store_struct")
    mi = o.get("model_input") or {}
    tb = o.get("tables") or {}
    if not st or "store" not in mi or not tb.get("names"):
        return out
    names, vers, crits = tb["names"], tb["versions"], tb["criteria"]

    def cn(l):
        return tuple(crits[c] if c < len(crits) else "?" for c in l)

    def vs(r):
        return vers[r] if r < len(vers) else "?"
    locked = case.get("mode", "locked") == "locked"
    for ni, n in enumerate(names):
        ps = pkg_store(mi["store"], ni)
        # local audits
        want = Counter()
        for a in st["audits"].get(n, []):
            k = a.get("kind")
            if k == "full":
                want[("full", a["version"], tuple(a["criteria"]), a.get("importable", True))] += 1
            elif k == "delta":
                want[("delta", a["from"], a["to"], tuple(a["criteria"]), a.get("importable", True))] += 1
            else:
                want[("violation", tuple(a["criteria"]))] += 1
        got = Counter()
        for a in ps[1]:
            k, ka, crit, imp, _ = audit_fields(a)
            if k == "KFull":
                got[("full", vs(ka[0]), cn(crit), imp)] += 1
            elif k == "KDelta":
                got[("delta", vs(ka[0]), vs(ka[1]), cn(crit), imp)] += 1
            else:
                got[("violation", cn(crit))] += 1
        if want != got:
            out.append(f"audits.toml says {sorted(want.elements(), key=str)[:3]} for {n}; cargo-vet read {sorted(got.elements(), key=str)[:3]}")
        # exemptions
        want = Counter((x["version"], tuple(x["criteria"]), x.get("suggest", True)) for x in st["exemptions"].get(n, []))
        got = Counter((vs(args(x)[0]), cn(args(x)[1]), args(x)[2]) for x in ps[7])
        if want != got:
            out.append(f"config.toml exempts {sorted(want.elements(), key=str)[:3]} for {n}; cargo-vet read {sorted(got.elements(), key=str)[:3]}")
        # local wildcard audits and trusted entries: user and criteria
        want = Counter((w["user-id"], tuple(w["criteria"])) for w in st["wildcard_audits"].get(n, []))
        got = Counter((args(w)[0], cn(args(w)[3])) for w in ps[3])
        if want != got:
            out.append(f"wildcard audits of {n}: file {sorted(want.elements(), key=str)[:3]}, read {sorted(got.elements(), key=str)[:3]}")
        want = Counter((w["user-id"], tuple(w["criteria"])) for w in st["trusted"].get(n, []))
        got = Counter((args(w)[0], cn(args(w)[3])) for w in ps[4])
        if want != got:
            out.append(f"trusted entries of {n}: file {sorted(want.elements(), key=str)[:3]}, read {sorted(got.elements(), key=str)[:3]}")
        if locked:
            want = Counter((p_["version"], p_["user-id"]) for p_ in st["lock"]["publisher"].get(n, []))
            got = Counter((vs(args(p_)[0]), args(p_)[1]) for p_ in ps[5])
            if want != got:
                out.append(f"publisher records of {n}: imports.lock {sorted(want.elements(), key=str)[:3]}, read {sorted(got.elements(), key=str)[:3]}")
            want = Counter((u["version"], u["audited_as"]) for u in st["lock"]["unpublished"].get(n, []))
            got = Counter((vs(args(u)[0]), vs(args(u)[1])) for u in ps[6])
            if want != got:
                out.append(f"unpublished records of {n}: imports.lock {sorted(want.elements(), key=str)[:3]}, read {sorted(got.elements(), key=str)[:3]}")
            peers = sorted(st["lock"]["audits"])
            for pi, peer in enumerate(peers):
                wl = Counter()
                for a in st["lock"]["audits"][peer].get("audits", {}).get(n, []):
                    wl[(a.get("kind"), tuple(a["criteria"]))] += 1
                gl = Counter()
                if pi < len(ps[0]):
                    for a in ps[0][pi]:
                        k, ka, crit, imp, _ = audit_fields(a)
                        gl[({"KFull": "full", "KDelta": "delta", "KViolation": "violation"}[k], cn(crit))] += 1
                if wl != gl:
                    out.append(f"imports.lock audits of {n} from {peer}: file {sorted(wl.elements(), key=str)[:3]}, read {sorted(gl.elements(), key=str)[:3]}")
    # unlocked: the publisher records the run works with are what crates.io serves NOW (version, user, day), whatever
    # imports.lock remembered from earlier runs
    if not locked and isinstance(case.get("registry"), dict):
        import datetime
        regp = case["registry"].get("packages") or {}
        known = {u[0] for u in case["registry"].get("users") or []}
        for ni, n in enumerate(names):
            ps = pkg_store(mi["store"], ni)
            served = {(r["version"], r["by"], datetime.date.fromisoformat(r["when"]).toordinal())
                      for r in regp.get(n, []) if r.get("by") is not None and r["by"] in known}
            for p_ in ps[5]:
                got1 = (vs(args(p_)[0]), args(p_)[1], num(args(p_)[2]))
                if got1 not in served:
                    out.append(f"publisher record of {n} used by the unlocked run: version {got1[0]} by user {got1[1]} on day {got1[2]}; "
                               f"crates.io serves {sorted(served, key=str)[:4]}")
    # third-party classification
    nodes, _ = graph_nodes(mi["graph"])
    pol = st.get("policy", {})
    labels = tb.get("nodes") or []
    bylabel = {}
    for p_ in case["graph"]["packages"]:
        v = p_["version"] + ("@git:" + p_["source"][4:] if p_["source"].startswith("git:") else "")
        bylabel[f"{p_['name']}:{v}"] = p_
    for i, nd in enumerate(nodes):
        p_ = bylabel.get(labels[i]) if i < len(labels) else None
        if p_ is None:
            continue
        v = labels[i].split(":", 1)[1]
        e = pol.get(p_["name"]) or pol.get(f"{p_['name']}:{v}") or {}
        want = p_["source"] == "registry" or e.get("audit-as-crates-io") is True
        if want != nd["third"]:
            out.append(f"{labels[i]} (source {p_['source']}, audit-as-crates-io={e.get('audit-as-crates-io')}) is treated as "
                       f"{'third' if nd['third'] else 'first'} party")
    return out
