"""oracle.py — direct, model-independent checks of property statements on
observations of the *implementation*.  Used to search for a concrete failing
input when a proof obligation or the correspondence breaks (and for shrinking);
never a substitute for a theorem.

Everything here works on the interned "model_input" JSON the harness emits
(records as {"_c": ctor, "a": [...]}) and on the harness's s-expression
observation; the semantics below are written from the property text / the book,
not from the Coq model.
"""
from vetlib import parse_sexp, sexp_get


def args(v):
    return v["a"]


def unopt(v):
    return None if v is None else v["_some"]


def num(v):
    if isinstance(v, dict):
        return v.get("_nat", v.get("_z"))
    return v


# ---------------------------------------------------------------- criteria
def table_of(store):
    return args(store)[0]           # list of implies-lists of customs


def ncrit(table):
    return 2 + len(table)


def closure(table, c):
    direct = {0: [], 1: [0]}
    for i, l in enumerate(table):
        direct[2 + i] = list(l)
    seen = {c}
    work = [c]
    while work:
        x = work.pop()
        for y in direct.get(x, []):
            if y not in seen:
                seen.add(y)
                work.append(y)
    return seen


def from_list(table, l):
    s = set()
    for c in l:
        s |= closure(table, c)
    return s


def bits(s):
    return sum(1 << c for c in s)


def unbits(n):
    return {i for i in range(n.bit_length()) if (n >> i) & 1}


def minimal(table, s):
    return sorted(c for c in s if not any(o != c and c in closure(table, o) for o in s))


# ---------------------------------------------------------------- store access
def pkg_store(store, name):
    for p in args(store)[1]:
        n, ps = p["_pair"]
        if n == name:
            return args(ps)
    return [[], [], [], [], [], [], [], []]


def audit_fields(a):
    kind, crit, importable, fresh = args(a)
    k = kind["_c"]
    ka = args(kind)
    return k, ka, crit, importable, fresh


def window_ok(start, end, when):
    # the property: published on a day not before start and not after end
    return start <= when <= end


def edges_of(table, ps):
    """independent enumeration of the certifying records of one crate as edges
    (from, to, criteria set, origin-sexp-list, level-info)"""
    imported, local, wimp, wloc, trusted, pubs, unpub, exempt = ps
    out = []
    for ii, l in enumerate(imported):
        for ai, a in enumerate(l):
            k, ka, crit, importable, fresh = audit_fields(a)
            if k == "KFull":
                out.append((None, ka[0], from_list(table, crit), ["I", str(ii), str(ai)], {"fresh": fresh}))
            elif k == "KDelta":
                out.append((ka[0], ka[1], from_list(table, crit), ["I", str(ii), str(ai)], {"fresh": fresh}))
    for ai, a in enumerate(local):
        k, ka, crit, importable, fresh = audit_fields(a)
        o = ["L", str(ai), "1" if importable else "0"]
        if k == "KFull":
            out.append((None, ka[0], from_list(table, crit), o, {"fresh": fresh, "nonimportable": not importable}))
        elif k == "KDelta":
            out.append((ka[0], ka[1], from_list(table, crit), o, {"fresh": fresh, "nonimportable": not importable}))
    for pi, p in enumerate(pubs):
        pver, puser, pwhen, pfresh = args(p)
        pwhen = num(pwhen)
        for ii, l in enumerate(wimp):
            for ai, w in enumerate(l):
                user, start, end, crit, wfresh = args(w)
                if user == puser and window_ok(num(start), num(end), pwhen):
                    out.append((None, pver, from_list(table, crit), ["W", str(ii), str(ai), str(pi)],
                                {"fresh": wfresh, "fresh_pub": pfresh, "grant": True}))
        for ai, w in enumerate(wloc):
            user, start, end, crit, wfresh = args(w)
            if user == puser and window_ok(num(start), num(end), pwhen):
                out.append((None, pver, from_list(table, crit), ["W", "-", str(ai), str(pi)],
                            {"fresh": wfresh, "fresh_pub": pfresh, "grant": True}))
        for t in trusted:
            user, start, end, crit = args(t)
            if user == puser and window_ok(num(start), num(end), pwhen):
                out.append((None, pver, from_list(table, crit), ["T", str(pi)], {"fresh": pfresh, "grant": True}))
    for ui, u in enumerate(unpub):
        uver, uas, ufresh, still = args(u)
        out.append((uas, uver, set(range(ncrit(table))), ["U", str(ui)], {"fresh": ufresh, "unpublished": True}))
    for xi, x in enumerate(exempt):
        xver, crit, suggest = args(x)
        out.append((None, xver, from_list(table, crit), ["X", str(xi)], {"exemption": True}))
    return out


def reachable(edges, c, start, avoid=lambda e: False):
    seen = {start}
    work = [start]
    while work:
        x = work.pop()
        for (f, t, crit, o, info) in edges:
            if f == x and c in crit and not avoid((f, t, crit, o, info)) and t not in seen:
                seen.add(t)
                work.append(t)
    return seen


def certified(edges, c, version, avoid=lambda e: False):
    return version in reachable(edges, c, None, avoid)


def check_path(edges, path, c, version):
    """path: list of origin sexps in the order the search returns them (from the
    target version back to the root).  Returns None if it is a chain of records
    from nothing to `version`, every link carrying c; else a reason."""
    cur = version
    bykey = {}
    for e in edges:
        bykey.setdefault(tuple(e[3]), []).append(e)
    for o in path:
        cands = bykey.get(tuple(o))
        if not cands:
            return f"path link {o} matches no store record"
        ok = [e for e in cands if e[1] == cur and c in e[2]]
        if not ok:
            return f"path link {o} does not end at version {cur} carrying criterion {c}"
        cur = ok[0][0]
    if cur is not None:
        return f"path stops at version {cur}, not at the root"
    return None


# ---------------------------------------------------------------- graph / requirements
def graph_nodes(graph):
    pkgs, members = args(graph)
    out = []
    for p in pkgs:
        name, ver, third, deps, pol = args(p)
        dl = []
        for d in deps:
            to, n, b, dv = args(d)
            dl.append((num(to), n, b, dv))
        pol = unopt(pol)
        if pol is not None:
            c, dc, depc = args(pol)
            pol = {"criteria": unopt(c), "dev": unopt(dc), "deps": {x["_pair"][0]: x["_pair"][1] for x in depc}}
        out.append({"name": name, "version": ver, "third": third, "deps": dl, "policy": pol})
    return out, [num(m) for m in members]


def requirements(table, graph):
    """least solution of the policy equations of C03, by naive iteration"""
    nodes, members = graph_nodes(graph)
    n = len(nodes)
    # roots: workspace members no one depends on via normal/build edges within
    # the normal build graph reachable from the workspace members
    reach = set()
    work = list(members)
    while work:
        x = work.pop()
        if x in reach:
            continue
        reach.add(x)
        for (to, nm, b, dv) in nodes[x]["deps"]:
            if nm or b:
                work.append(to)
    has_parent = set()
    for x in reach:
        for (to, nm, b, dv) in nodes[x]["deps"]:
            if nm or b:
                has_parent.add(to)
    roots = {m for m in members if m not in has_parent}
    R = [set() for _ in range(n)]
    changed = True
    it = 0
    while changed:
        it += 1
        if it > 10 * n + 10:
            return None, roots
        changed = False
        for p in range(n):
            pol = nodes[p]["policy"]
            if p not in visited_all(nodes, members):
                new = set()
            elif pol and pol["criteria"] is not None:
                new = from_list(table, pol["criteria"])
            else:
                new = set()
                if p in roots:
                    new |= from_list(table, [1])
                for q in range(n):
                    qpol = nodes[q]["policy"]
                    for (to, nm, b, dv) in nodes[q]["deps"]:
                        if to != p:
                            continue
                        override = None
                        if qpol and nodes[p]["name"] in qpol["deps"]:
                            override = from_list(table, qpol["deps"][nodes[p]["name"]])
                        if (nm or b) and q in visited_all(nodes, members):
                            new |= override if override is not None else R[q]
                        if dv and q in members:
                            if override is not None:
                                new |= override
                            elif qpol and qpol["dev"] is not None:
                                new |= from_list(table, qpol["dev"])
                            else:
                                new |= from_list(table, [0])
            if new != R[p]:
                R[p] = new
                changed = True
    return R, roots


_va_cache = {}


def visited_all(nodes, members):
    """nodes the two DFS passes reach (normal/build edges from members, then from
    members' dev-dependencies); only those propagate requirements"""
    key = (id(nodes), tuple(members))
    if key in _va_cache:
        return _va_cache[key]
    seen = set()
    work = list(members)
    for m in members:
        for (to, nm, b, dv) in nodes[m]["deps"]:
            if dv:
                work.append(to)
    while work:
        x = work.pop()
        if x in seen:
            continue
        seen.add(x)
        for (to, nm, b, dv) in nodes[x]["deps"]:
            if nm or b:
                work.append(to)
    _va_cache.clear()
    _va_cache[key] = seen
    return seen


# ---------------------------------------------------------------- observation access
class Report:
    def __init__(self, obs_sexp):
        e = parse_sexp(obs_sexp) if isinstance(obs_sexp, str) else obs_sexp
        self.e = e
        self.topo = [int(x) for x in sexp_get(e, "topo")[1:]]
        self.roots = [int(x) for x in sexp_get(e, "roots")[1:]]
        self.devonly = [int(x) for x in sexp_get(e, "devonly")[1:]]
        self.reqs = [int(x) for x in sexp_get(e, "reqs")[1:]]
        self.concl = sexp_get(e, "concl")[1]
        self.results = sexp_get(e, "results")[1:]

    @property
    def kind(self):
        return self.concl[0]

    def failures(self):
        return {int(f[1]): int(f[2]) for f in self.concl[1:]} if self.kind == "failvet" else {}

    def success_lists(self):
        if self.kind != "success":
            return None
        return {x[0]: [int(i) for i in x[1:]] for x in self.concl[1:]}

    def conflicts(self):
        if self.kind != "violation":
            return {}
        return {int(p[1]): p[2:] for p in self.concl[1:]}

    def search(self, i, c):
        r = self.results[i]
        if r[0] != "s":
            return None
        return r[1 + c]
