#!/bin/sh
# run every stored seeded change (or those named in $SEEDS, a glob list relative to /verif) against the quick check of the property it targets; one summary line each
cd /verif
export VERIF_NO_SHRINK=1   # the sweep only needs the verdicts
for d in ${SEEDS:-seeded/C*-[abcdef]}; do
  id=$(basename $d | cut -d- -f1)
  out=$(sh tools/try_seed.sh /verif/$d/patch.diff quick $id 2>&1)
  rc=$(echo "$out" | grep -o "exit=[0-9]*" | head -1)
  nv=$(echo "$out" | grep -c "^VIOLATION")
  nf=$(echo "$out" | grep -c "no-failing-input-found")
  echo "$(basename $d) $rc violations=$nv no-input=$nf"
done
