"""positional criteria tables of an aggregate case: each source's own table, the table of the file the REAL
do_aggregate_audits wrote, and the renaming between them (by criterion name) — input of `embeds` (proofs/EmbedProofs.v)"""
import vetlib
from vetlib import coq


def tables_of(o):
    """-> list of (source index, t1, t2, rho list) or None when the aggregation failed / a name is dangling"""
    e = vetlib.parse_sexp(o["obs"])
    ok = vetlib.sexp_get(e, "ok")
    if ok is None:
        return None
    names = o["tables"]["criteria"]
    run_id = names.index("safe-to-run") if "safe-to-run" in names else -1
    deploy_id = names.index("safe-to-deploy") if "safe-to-deploy" in names else -2

    def positions(defined):
        pos = {run_id: 0, deploy_id: 1}
        for k, nm in enumerate(sorted(x for x in defined if x not in (run_id, deploy_id))):
            pos[nm] = 2 + k
        return pos

    merged = {}
    for c in vetlib.sexp_get(ok, "criteria")[1:]:
        merged[int(c[1])] = [int(x) for x in vetlib.sexp_get(c, "implies")[1:]]
    pos2 = positions(merged)
    if any(i not in pos2 for l in merged.values() for i in l):
        return None
    t2 = [[pos2[i] for i in merged[nm]] for nm in sorted(merged)]
    out = []
    for k, src in enumerate(o["model_input"]["sources"]):
        f = src["_pair"][1]
        crits = {c["a"][0]: c["a"][3] for c in f["a"][0]}
        pos1 = positions(crits)
        if any(i not in pos1 for l in crits.values() for i in l) or any(nm not in pos2 for nm in crits):
            return None
        t1 = [[pos1[i] for i in crits[nm]] for nm in sorted(crits)]
        rho = [0, 1] + [pos2[nm] for nm in sorted(crits)]
        out.append((k, t1, t2, rho))
    return out


def exprs(cid, o):
    ts = tables_of(o)
    if not ts:
        return []
    parts = [f"sbool (embeds {coq(t1)} {coq(t2)} (fun c => nth (N.to_nat c) {coq(rho)} c))" for _, t1, t2, rho in ts]
    return [(cid + "#embed", "sp \"embeds\" [" + "; ".join(parts) + "]")]
