#!/bin/sh
# confirm and try every finished seed of a round: round.sh <suffix letter>   (worktrees /tmp/mut/<Cxx><suffix>, outputs /tmp/mut/<Cxx><suffix>-out)
s=$1
cd /verif
for o in /tmp/mut/C??$s-out; do
  id=$(basename $o -out)
  [ -f $o/meta.json ] && [ -s $o/patch.diff ] || { echo "$id not ready"; continue; }
  p=$(echo $id | cut -c1-3)
  conf=$(sh tools/confirm_seed.sh /tmp/mut/$id $o 2>&1 | grep -E "^test result" | tr '\n' ' ')
  out=$(sh tools/try_seed.sh $o/patch.diff quick $p 2>&1)
  rc=$(echo "$out" | grep -o "exit=[0-9]*" | head -1)
  echo "$id $rc violations=$(echo "$out" | grep -c '^VIOLATION') noinput=$(echo "$out" | grep -c 'no-failing-input-found') | $conf"
done
